#!/usr/bin/env python3
"""Regenerates MANIFEST.json from the table below (single source of truth for commands)."""
import json, os, sys
HERE = os.path.dirname(os.path.abspath(__file__))
sys.path.insert(0, HERE)
from manifest_table import CHECKS, NOT_APPLICABLE, SOURCE_COMMITS, ENGINES

m = {
    "version": 1,
    "setup_cmd": "/venv/bin/python -c 'import hypothesis' 2>/dev/null || /venv/bin/pip install --no-index --find-links /opt/veriftools/wheels hypothesis",
    "hooks": {
        "guard": "GECKOLIB_VERIF",
        "enable": "no source hooks are needed: the harness swaps instance attributes (queue, lock, transports, clock) from outside; checks run PYTHONPATH=$VERIF_REPO/src so the working tree is what executes",
        "baseline_off_cmd": "cd /repo && /venv/bin/python -m pytest -ra -q -p no:cacheprovider --timeout=900 --continue-on-collection-errors tests",
        "source_commits": SOURCE_COMMITS,
        "add_only": True,
    },
    "engines": ENGINES,
    "checks": [],
    "not_applicable": NOT_APPLICABLE,
    "notes": "All checks: ./check <ID> quick|thorough ; replay: ./check <ID> --replay <file>. VERIF_SEED seeds every Hypothesis worker (seed = H(VERIF_SEED, id, worker)); VERIF_REPO selects the tree (default /repo). Exit 0 held / 1 VIOLATION / 2 harness error. Known findings and fixed defects: known_findings.json.",
}
for c in CHECKS:
    m["checks"].append({
        "property_id": c["id"],
        "quick_cmd": f"./check {c['id']} quick",
        "thorough_cmd": f"./check {c['id']} thorough",
        "evidence_file": f"evidence/{c['id']}.json",
        "replay_cmd_template": f"./check {c['id']} --replay {{path}}",
        "engine": c["engine"],
        "level_claimed": {"category": c["level"], "text": c["text"], "design_ref": c["ref"]},
        "level_note": c["note"],
        "technique": c["technique"],
    })
json.dump(m, open(os.path.join(HERE, "MANIFEST.json"), "w"), indent=1)
print("wrote MANIFEST.json with", len(m["checks"]), "checks,", len(NOT_APPLICABLE), "not_applicable")
