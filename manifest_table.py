"""Single source for MANIFEST.json (python tools_manifest.py regenerates it)."""
SOURCE_COMMITS = []
ENGINES = [
 {"name": "runner", "path": "vp/runner.py", "serves_properties": ["C16"], "kind_free_text": "Hypothesis-driven generation sharded over 16 processes, collect-by-signature then JSON ddmin shrinking, known-findings/fixed replay, evidence writer"},
]
CHECKS = [
 {"id": "C16", "engine": "runner", "level": "exploration",
  "technique": "property-based testing: exhaustive enumeration of the counter state space + Hypothesis call sequences against a successor model; real-thread race amplifier; wire-level sequence oracle",
  "text": "Every reachable (protocol counter, command counter) state of both implementations is enumerated from a fresh object in three interleaving orders and each returned value is compared with an explicit successor model (exhaustive for the state space); random call sequences, real threads with a GIL-yielding counter shim (multiset + lock-held oracle) and the sequence byte of every datagram the threaded client queues for set-value / key-press / watercare / refresh / STATQ are checked against the same model.",
  "ref": "DESIGN.md section 3 C16",
  "note": "OS-thread pre-emption is amplified, not enumerated. The reference parse of the sequence byte is written from the protocol description (verb + 1 byte)."},
]
NOT_APPLICABLE = [
 {
  "property_id": "C01",
  "reason": "check not built yet in this session (work in progress; see DESIGN.md section 3)"
 },
 {
  "property_id": "C02",
  "reason": "check not built yet in this session (work in progress; see DESIGN.md section 3)"
 },
 {
  "property_id": "C03",
  "reason": "check not built yet in this session (work in progress; see DESIGN.md section 3)"
 },
 {
  "property_id": "C04",
  "reason": "check not built yet in this session (work in progress; see DESIGN.md section 3)"
 },
 {
  "property_id": "C05",
  "reason": "check not built yet in this session (work in progress; see DESIGN.md section 3)"
 },
 {
  "property_id": "C06",
  "reason": "check not built yet in this session (work in progress; see DESIGN.md section 3)"
 },
 {
  "property_id": "C07",
  "reason": "check not built yet in this session (work in progress; see DESIGN.md section 3)"
 },
 {
  "property_id": "C08",
  "reason": "check not built yet in this session (work in progress; see DESIGN.md section 3)"
 },
 {
  "property_id": "C09",
  "reason": "check not built yet in this session (work in progress; see DESIGN.md section 3)"
 },
 {
  "property_id": "C10",
  "reason": "check not built yet in this session (work in progress; see DESIGN.md section 3)"
 },
 {
  "property_id": "C11",
  "reason": "check not built yet in this session (work in progress; see DESIGN.md section 3)"
 },
 {
  "property_id": "C12",
  "reason": "check not built yet in this session (work in progress; see DESIGN.md section 3)"
 },
 {
  "property_id": "C13",
  "reason": "check not built yet in this session (work in progress; see DESIGN.md section 3)"
 },
 {
  "property_id": "C14",
  "reason": "check not built yet in this session (work in progress; see DESIGN.md section 3)"
 },
 {
  "property_id": "C15",
  "reason": "check not built yet in this session (work in progress; see DESIGN.md section 3)"
 },
 {
  "property_id": "C17",
  "reason": "check not built yet in this session (work in progress; see DESIGN.md section 3)"
 },
 {
  "property_id": "C18",
  "reason": "check not built yet in this session (work in progress; see DESIGN.md section 3)"
 },
 {
  "property_id": "C19",
  "reason": "check not built yet in this session (work in progress; see DESIGN.md section 3)"
 },
 {
  "property_id": "C20",
  "reason": "check not built yet in this session (work in progress; see DESIGN.md section 3)"
 }
]
