"""Single source for MANIFEST.json (python tools_manifest.py regenerates it)."""
SOURCE_COMMITS = []  # no hook commits; fix: commits are listed in known_findings.json
ENGINES = [
 {"name": "vworld", "path": "vp/vworld.py", "serves_properties": ["C01", "C05", "C06", "C07", "C15", "C17"], "kind_free_text": "E3: virtual-time asyncio loop (advancing clock, jitter tape on timers, FIFO fault-tape network, fake datagram transports) with the library's own GeckoSimulator driven in-process as the peer; recording queue/lock (vp/recording.py)"},
 {"name": "stepped", "path": "vp/stepped.py", "serves_properties": ["C01", "C05"], "kind_free_text": "E4: the real GeckoUdpSocket._thread_func stepped on the harness thread against a scripted mock socket with virtual time and inert threads"},
 {"name": "refcodec", "path": "vp/refcodec.py", "serves_properties": ["C04"], "kind_free_text": "E2: reference codec of every in.touch2 message as explicit byte concatenations + index-based un-framer, independent of driver/protocol/*.py"},
 {"name": "packs", "path": "vp/packs.py", "serves_properties": ["C02", "C03", "C14", "C18"], "kind_free_text": "E1: enumeration of the 164 shipped table modules / 895 combinations and a reference item decoder/encoder built from the recorded constructor arguments of the generated tables (independent of accessor.py)"},
 {"name": "runner", "path": "vp/runner.py", "serves_properties": ["C02", "C16", "C18"], "kind_free_text": "Hypothesis-driven generation sharded over 16 processes, collect-by-signature then JSON ddmin shrinking, known-findings/fixed replay, evidence writer"},
]
CHECKS = [
 {"id": "C16", "engine": "runner", "level": "exploration",
  "technique": "property-based testing: exhaustive enumeration of the counter state space + Hypothesis call sequences against a successor model; real-thread race amplifier; wire-level sequence oracle",
  "text": "Every reachable (protocol counter, command counter) state of both implementations is enumerated from a fresh object in three interleaving orders and each returned value is compared with an explicit successor model (exhaustive for the state space); random call sequences, real threads with a GIL-yielding counter shim (multiset + lock-held oracle) and the sequence byte of every datagram the threaded client queues for set-value / key-press / watercare / refresh / STATQ are checked against the same model.",
  "ref": "DESIGN.md section 3 C16",
  "note": "OS-thread pre-emption is amplified, not enumerated. The reference parse of the sequence byte is written from the protocol description (verb + 1 byte)."},
 {"id": "C18", "engine": "packs", "level": "exploration",
  "technique": "exhaustive enumeration of all shipped table items/modules/combinations against well-formedness predicates and a pinned layout manifest (differential against the audited commit)",
  "text": "Complete sweep, no sampling: every item of every table module is checked for addressability (bytes inside the 1024-byte block, bit field inside its bytes, enum labels representable) on the constructor arguments recorded from the generated table itself, every advertised key must name an item, version/platform/file names must agree and the FILES reply of every platform x cfg x log combination must resolve to the shipped modules; every public attribute of every real accessor and table object is compared with the layout pinned at commit 236b7b1 (new modules allowed, pinned ones immutable, removed items/modules reported).",
  "ref": "DESIGN.md section 3 C18",
  "note": "Immutability is relative to the pinned commit; capacity of a bit field follows the MaxItems convention. Three genuine table defects are listed in known_findings.json."},
 {"id": "C02", "engine": "packs", "level": "exploration",
  "technique": "property-based testing: per-shape exhaustive (field contents x domain) sweep + per-item generated writes, emitted device write applied to the block and judged by an independent reference layout/decoder; sync/async differential",
  "text": "For every distinct item shape all existing field contents x all domain values (1-byte fields completely; 2-byte bit-fields completely in thorough) and for every one of the ~20,500 items several generated (block, value) pairs are written through the blocking and the awaitable path of both structure classes; the emitted (pos,len,value) is applied as a big-endian store and must make the item read back the value (reference decoder and real accessor), flip no bit outside the item's own mask, change no other item of the cfg+log pair, be identical on both paths, and read-only items must raise and emit nothing; string forms of numbers/booleans included.",
  "ref": "DESIGN.md section 3 C02",
  "note": "Reference geometry comes from the constructor arguments in the generated tables (recorded by executing the table modules against recording classes), not from accessor.py."},
 {"id": "C03", "engine": "packs", "level": "exploration",
  "technique": "property-based testing: generated update/watch histories on real structures against a reference-decoder model of expected notifications",
  "text": "Generated histories of partial patches (item-anchored offsets that straddle, touch one byte of, or just miss 2-byte items), sparse bit flips, full refreshes and watch/double-watch/unwatch/unwatch_all calls (plain functions and bound methods) run on both structure classes with every item of a generated cfg+log combination watched; per update and (item, observer) the number of callbacks must be 1 iff the reference decode of the old and new block differ (temperatures: stored word) and 0 otherwise, with (sender, old, new) equal to the reference decodes and the new block already visible inside the callback.",
  "ref": "DESIGN.md section 3 C03",
  "note": "Expected values come from the reference decoder over the recorded table arguments; when the unit item and a temperature word change in one update only exactly-once is checked for that temperature."},
 {"id": "C14", "engine": "packs", "level": "exploration",
  "technique": "exhaustive enumeration (raw words x units, 0.01-degree grid, flag x relation x unit per combination) + Hypothesis, judged by exact rational arithmetic and a reference operation ladder",
  "text": "All 65536 raw words x {C,F} on one pair per platform: displayed value vs raw/18 resp. (raw+320)/10 (1e-9) and write-back of the displayed value through the blocking and awaitable path must emit the raw word exactly; every 0.01-degree decimal in [min-5,max+5] (float and string) must land within one device step, exactly when representable, order preserved; on every heater-capable cfg x log combination unit symbol, limits, the three temperatures and current_operation are compared with a written-down ladder for all heating/cooling flag values and current<,=,>real-target, set point equal to and different from the real target.",
  "ref": "DESIGN.md section 3 C14",
  "note": "A flag counts as set when its stored field is non-zero; one device step is 1/18 C or 0.1 F."},
 {"id": "C04", "engine": "refcodec", "level": "exploration",
  "technique": "property-based testing: generated fields for every message constructor, differential against an independent reference codec, round-trip through the real framer, handler-exclusivity and decode oracles, stateful decode sequences",
  "text": "For each of the 26 message constructors generated in-range fields (binary payloads biased to newlines, quotes and tag text; latin-1 names incl. '|'; all shipped platform names x versions, exhaustively in thorough) are built by the library and must equal the reference codec byte for byte, survive framing/un-framing with (ip,port,src,dst) intact, be claimed by exactly the handler family of their verb among all standard handlers, decode on a fresh peer handler (and on one long-lived handler across message sequences) to the inputs, and a reply built from the received parms must carry swapped identifiers (index-based reference parser) and the sender's address.",
  "ref": "DESIGN.md section 3 C04",
  "note": "Identifiers never contain tag text (implicit precondition of every caller). SETWC/WCREQ unclaimed are known findings; the hello separator and greedy un-framing defects were repaired (known_findings.json)."},
 {"id": "C01", "engine": "vworld+stepped", "level": "fault_enumeration",
  "technique": "fault injection: generated loss/dup/delay/swap tapes (incl. persistent, attempt-aligned faults) on a deterministic virtual network + complete fault-free (start,length) sweeps; oracle = spa block vs client block",
  "text": "A really connected GeckoAsyncSpa on the virtual-time loop (real packet and catch-all consumers) and a GeckoStructure on the stepped threaded engine fetch generated (start,length) ranges from the in-process GeckoSimulator through generated fault tapes over request and segment datagrams, several transfers per connection with the network drained in between; success must install exactly the spa's bytes, failure must leave the client block untouched, no byte may take a third value, the block stays 1024 bytes, the number of STATU datagrams is bounded by the retry budget, the call must terminate, and every fault-free (start,length) of the sweep (all lengths at start 0, all starts to the block end, a lattice incl. every multiple-of-39 boundary) must succeed.",
  "ref": "DESIGN.md section 3 C01",
  "note": "Delays <= 3 s and a drained network between transfers (as the quantifier states); the spa block is constant during one transfer; 'must succeed' only on the nominal schedule."},
 {"id": "C05", "engine": "vworld+stepped", "level": "fault_enumeration",
  "technique": "property-based testing: generated message/refresh histories against a reference block folded in delivery order; acknowledgement oracle on the wire log",
  "text": "Generated histories of unsolicited STATP messages (0..6 records, clustered/repeated/overlapping positions, empty messages, the simulator's own 1-byte change) interleaved with log-range refreshes of a silently mutated simulator block run against a connected async client (refreshes not awaited, optional jitter) and the threaded GeckoSpa on the stepped engine; after quiescence the client block must equal the fold of all updates in the order their (last) datagram was delivered and exactly one STATQ with a sequence in 1..191 and the right identifiers must have left per STATP.",
  "ref": "DESIGN.md section 3 C05",
  "note": "FIFO network; a refresh installs whole 39-byte segments; STATQ/truncated STATP towards the client are outside the quantifier."},
 {"id": "C06", "engine": "vworld", "level": "exploration",
  "technique": "property-based testing over schedules and reply faults: generated concurrent callers x loss/delay tapes x jitter tapes on a virtual clock; recording lock + time-stamped wire log as history invariants",
  "text": "1..8 generated concurrent callers (counting-factory requests with retry 1..10, key press, set value, watercare get/set, reminders) run next to the library's own ping and refresh loops on one connection under reply loss/delay and timer jitter; per call transmissions <= retry count, factory calls == transmissions, attempts carry fresh sequence numbers and are >= timeout apart, every request datagram lies in exactly one lock window of the task that sends that verb, lock windows never overlap and are granted in request order, a reply is returned only if a response datagram was delivered inside an attempt window, every call ends within retry x (timeout+pause) plus the stated polling tolerance, and with a stale ping or a disconnected spa the gated calls emit nothing and return at once.",
  "ref": "DESIGN.md section 3 C06",
  "note": "Schedules are the jitter-tape family (J<=50 ms); the spa does not echo sequence numbers, so 'a reply for it' is judged by response verb inside the attempt window."},
 {"id": "C07", "engine": "vworld", "level": "exploration",
  "technique": "property-based testing over arrival scripts and schedules: recording queue (put/pop/mark per task) checked against an independent verb->consumer table and a reference effect model",
  "text": "Generated arrival scripts of valid, unknown, junk, late, mis-addressed (source, destination, both) and malformed-framing datagrams are injected into a connected client while generated requests are outstanding, the client event handler suspends for generated durations and timers are jittered; the recorded queue log must show exactly one pop per put, by the catch-all task or by a task whose verb family accepts the datagram, no consumer task may die, head residence stays within the stated bound, the packet consumer may re-queue exactly the contents of correctly addressed well-formed packets, and block, RF/watercare events and acknowledgements must equal what the consumed, correctly addressed datagrams imply.",
  "ref": "DESIGN.md section 3 C07",
  "note": "Jitter-tape schedule family; verb table written from the protocol description; bound 6 x (poll + J) (analytic worst case of the repaired catch-all consumer: 5 intervals + 3J)."},
 {"id": "C15", "engine": "vworld", "level": "exploration",
  "technique": "property-based testing over peers, reply timing/duplication, filters and schedules on a virtual clock; validity predicates on the returned list, return time and resources",
  "text": "GeckoAsyncLocator.discover() runs against 0..6 in-process simulators with generated identifiers, latin-1 names (incl. '|', empty, non-ASCII), reply multiplicity 0..4 and hello latency 0..12 s, with no filter, an address, a present/absent identifier or both, under timer jitter and suspensions of the client's discovered-spa handler; the list must contain each spa that could have been consumed in time exactly once (only the requested identifier when one is given) with identifier, name and address intact, every announced spa must be listed, the return time must respect 'requested spa answered', 'initial wait + any answer' and the discovery timeout (with the stated polling tolerance), the endpoint must be closed and the LOC tasks finished on return; the threaded locator's de-duplication is fed generated reply sequences.",
  "ref": "DESIGN.md section 3 C15",
  "note": "The hello consumer takes one datagram per polling interval: expected visibility time is computed from the recorded delivery times accordingly."},
 {"id": "C17", "engine": "vworld", "level": "exploration",
  "technique": "property-based testing over switch/sleep histories and schedules on a virtual clock; oracle = the configuration classes by reflection, wake-time rules, reference decode of pump/blower states",
  "text": "Generated histories of 1..12 looping config-aware sleepers and 1..8 mode switches (instants chosen to coincide with sleeper starts and expiries) under timer jitter: after every switch every upper-case member of the three configuration classes (collected by reflection, not from CONFIG_MEMBERS) equals the chosen table, a sleeper pending at a switch wakes at the switch instant, no sleeper sleeps longer than asked (+ its timer latency), none stays asleep; a real GeckoAsyncFacade on shipped snapshot configurations gets generated pump/blower/light state assignments as block updates and must select active exactly when a pump or blower is on (lights must not count).",
  "ref": "DESIGN.md section 3 C17",
  "note": "A switch presupposes a started config-aware sleep (asserted by the code itself). The facade oracle applies from the first pump/blower state change on (construction does not select a table)."},
]
NOT_APPLICABLE = [
 {
  "property_id": "C08",
  "reason": "check not built yet in this session (work in progress; see DESIGN.md section 3)"
 },
 {
  "property_id": "C09",
  "reason": "check not built yet in this session (work in progress; see DESIGN.md section 3)"
 },
 {
  "property_id": "C10",
  "reason": "check not built yet in this session (work in progress; see DESIGN.md section 3)"
 },
 {
  "property_id": "C11",
  "reason": "check not built yet in this session (work in progress; see DESIGN.md section 3)"
 },
 {
  "property_id": "C12",
  "reason": "check not built yet in this session (work in progress; see DESIGN.md section 3)"
 },
 {
  "property_id": "C13",
  "reason": "check not built yet in this session (work in progress; see DESIGN.md section 3)"
 },
 {
  "property_id": "C19",
  "reason": "check not built yet in this session (work in progress; see DESIGN.md section 3)"
 },
 {
  "property_id": "C20",
  "reason": "check not built yet in this session (work in progress; see DESIGN.md section 3)"
 }
]
