"""Single source for MANIFEST.json (python tools_manifest.py regenerates it)."""
SOURCE_COMMITS = []
ENGINES = [
 {"name": "packs", "path": "vp/packs.py", "serves_properties": ["C02", "C18"], "kind_free_text": "E1: enumeration of the 164 shipped table modules / 895 combinations and a reference item decoder/encoder built from the recorded constructor arguments of the generated tables (independent of accessor.py)"},
 {"name": "runner", "path": "vp/runner.py", "serves_properties": ["C02", "C16", "C18"], "kind_free_text": "Hypothesis-driven generation sharded over 16 processes, collect-by-signature then JSON ddmin shrinking, known-findings/fixed replay, evidence writer"},
]
CHECKS = [
 {"id": "C16", "engine": "runner", "level": "exploration",
  "technique": "property-based testing: exhaustive enumeration of the counter state space + Hypothesis call sequences against a successor model; real-thread race amplifier; wire-level sequence oracle",
  "text": "Every reachable (protocol counter, command counter) state of both implementations is enumerated from a fresh object in three interleaving orders and each returned value is compared with an explicit successor model (exhaustive for the state space); random call sequences, real threads with a GIL-yielding counter shim (multiset + lock-held oracle) and the sequence byte of every datagram the threaded client queues for set-value / key-press / watercare / refresh / STATQ are checked against the same model.",
  "ref": "DESIGN.md section 3 C16",
  "note": "OS-thread pre-emption is amplified, not enumerated. The reference parse of the sequence byte is written from the protocol description (verb + 1 byte)."},
 {"id": "C18", "engine": "packs", "level": "exploration",
  "technique": "exhaustive enumeration of all shipped table items/modules/combinations against well-formedness predicates and a pinned layout manifest (differential against the audited commit)",
  "text": "Complete sweep, no sampling: every item of every table module is checked for addressability (bytes inside the 1024-byte block, bit field inside its bytes, enum labels representable) on the constructor arguments recorded from the generated table itself, every advertised key must name an item, version/platform/file names must agree and the FILES reply of every platform x cfg x log combination must resolve to the shipped modules; every public attribute of every real accessor and table object is compared with the layout pinned at commit 236b7b1 (new modules allowed, pinned ones immutable, removed items/modules reported).",
  "ref": "DESIGN.md section 3 C18",
  "note": "Immutability is relative to the pinned commit; capacity of a bit field follows the MaxItems convention. Three genuine table defects are listed in known_findings.json."},
 {"id": "C02", "engine": "packs", "level": "exploration",
  "technique": "property-based testing: per-shape exhaustive (field contents x domain) sweep + per-item generated writes, emitted device write applied to the block and judged by an independent reference layout/decoder; sync/async differential",
  "text": "For every distinct item shape all existing field contents x all domain values (1-byte fields completely; 2-byte bit-fields completely in thorough) and for every one of the ~20,500 items several generated (block, value) pairs are written through the blocking and the awaitable path of both structure classes; the emitted (pos,len,value) is applied as a big-endian store and must make the item read back the value (reference decoder and real accessor), flip no bit outside the item's own mask, change no other item of the cfg+log pair, be identical on both paths, and read-only items must raise and emit nothing; string forms of numbers/booleans included.",
  "ref": "DESIGN.md section 3 C02",
  "note": "Reference geometry comes from the constructor arguments in the generated tables (recorded by executing the table modules against recording classes), not from accessor.py."},
]
NOT_APPLICABLE = [
 {
  "property_id": "C01",
  "reason": "check not built yet in this session (work in progress; see DESIGN.md section 3)"
 },
 {
  "property_id": "C03",
  "reason": "check not built yet in this session (work in progress; see DESIGN.md section 3)"
 },
 {
  "property_id": "C04",
  "reason": "check not built yet in this session (work in progress; see DESIGN.md section 3)"
 },
 {
  "property_id": "C05",
  "reason": "check not built yet in this session (work in progress; see DESIGN.md section 3)"
 },
 {
  "property_id": "C06",
  "reason": "check not built yet in this session (work in progress; see DESIGN.md section 3)"
 },
 {
  "property_id": "C07",
  "reason": "check not built yet in this session (work in progress; see DESIGN.md section 3)"
 },
 {
  "property_id": "C08",
  "reason": "check not built yet in this session (work in progress; see DESIGN.md section 3)"
 },
 {
  "property_id": "C09",
  "reason": "check not built yet in this session (work in progress; see DESIGN.md section 3)"
 },
 {
  "property_id": "C10",
  "reason": "check not built yet in this session (work in progress; see DESIGN.md section 3)"
 },
 {
  "property_id": "C11",
  "reason": "check not built yet in this session (work in progress; see DESIGN.md section 3)"
 },
 {
  "property_id": "C12",
  "reason": "check not built yet in this session (work in progress; see DESIGN.md section 3)"
 },
 {
  "property_id": "C13",
  "reason": "check not built yet in this session (work in progress; see DESIGN.md section 3)"
 },
 {
  "property_id": "C14",
  "reason": "check not built yet in this session (work in progress; see DESIGN.md section 3)"
 },
 {
  "property_id": "C15",
  "reason": "check not built yet in this session (work in progress; see DESIGN.md section 3)"
 },
 {
  "property_id": "C17",
  "reason": "check not built yet in this session (work in progress; see DESIGN.md section 3)"
 },
 {
  "property_id": "C19",
  "reason": "check not built yet in this session (work in progress; see DESIGN.md section 3)"
 },
 {
  "property_id": "C20",
  "reason": "check not built yet in this session (work in progress; see DESIGN.md section 3)"
 }
]
