"""Helpers that bring real library clients up inside a World (E3)."""
from __future__ import annotations

import asyncio
import hashlib

from .runner import HarnessError, SetupFailed
from . import vworld

SPA_ID = b"SPA01:02:03:04:05:06"
CLIENT_ID = b"IOSvp-client-uuid"


def prng(*parts, n):
    out = b""
    ctr = 0
    seed = repr(parts).encode()
    while len(out) < n:
        out += hashlib.blake2b(seed + ctr.to_bytes(4, "big")).digest()
        ctr += 1
    return out[:n]


class Events:
    def __init__(self, world):
        self.world = world
        self.log = []

    async def __call__(self, event, **kw):
        self.log.append((self.world.clock.t, event, kw))


async def connect_async_spa(world, peer, keep_loops=False):
    """a really connected GeckoAsyncSpa (fault-free handshake); optionally with the ping and
    refresh loops cancelled so that only the harness talks on the connection"""
    from geckolib import GeckoAsyncSpa, GeckoAsyncSpaDescriptor, AsyncTasks

    tm = AsyncTasks()
    await tm.__aenter__()
    ev = Events(world)
    desc = GeckoAsyncSpaDescriptor(peer.sim.vp_identifier, peer.sim.vp_name, peer.addr)
    spa = GeckoAsyncSpa(CLIENT_ID, desc, tm, ev)
    # the harness handshake runs on the nominal schedule; the case's jitter tape starts afterwards
    tape, world.loop.jitter = world.loop.jitter, []
    try:
        await spa.connect()
    finally:
        world.loop.jitter = tape
    if not spa.is_connected:
        raise SetupFailed("fault-free handshake did not connect: " + repr([e[1] for e in ev.log]))
    if not keep_loops:
        for t in list(tm._tasks):
            if t.get_name() in ("SPA:Ping loop", "SPA:Refresh loop", "ASYNC:Tidy tasks"):
                t.cancel()
        await asyncio.sleep(0)
        # the gates look at the last ping: pretend one just arrived whenever the harness asks
    return spa, tm, ev


def keep_ping_fresh(spa, world):
    spa._last_ping = world.clock.t


async def shutdown(tm):
    await tm.gather()


ACTIONS = {"d": "deliver", "x": "drop", "u": "dup", "s": "swap"}


def decode_tape(tape):
    out = []
    for a in tape:
        if isinstance(a, (list, tuple)):
            out.append(("delay", float(a[1])))
        else:
            out.append(ACTIONS[a])
    return out
