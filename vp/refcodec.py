"""E2: reference codec for the in.touch2 wire format.

Explicit byte concatenations written from the protocol description (README, captured traffic
in tests/snapshots, literals in tests/test_protocol.py) - independent of
geckolib/driver/protocol/*.py.  Everything is bytes-in / bytes-out.
"""
from __future__ import annotations


def u8(v):
    if not 0 <= v <= 0xFF:
        raise ValueError(v)
    return bytes([v])


def u16(v):
    if not 0 <= v <= 0xFFFF:
        raise ValueError(v)
    return bytes([v >> 8, v & 0xFF])


def i16le(v):
    if not -32768 <= v <= 32767:
        raise ValueError(v)
    v &= 0xFFFF
    return bytes([v & 0xFF, v >> 8])


# ------------------------------------------------------------------ outer datagrams


def hello(content: bytes) -> bytes:
    return b"<HELLO>" + content + b"</HELLO>"


def hello_reply(spa_id: bytes, name_latin1: bytes) -> bytes:
    return hello(spa_id + b"|" + name_latin1)


def frame(src: bytes, dst: bytes, content: bytes) -> bytes:
    return (b"<PACKT><SRCCN>" + src + b"</SRCCN><DESCN>" + dst + b"</DESCN><DATAS>"
            + content + b"</DATAS></PACKT>")


def unframe(datagram: bytes):
    """index-based parse (no regex): (src, dst, content) or None.
    Identifiers never contain tag text, so the first closing tags delimit them; the content is
    everything up to the final </DATAS></PACKT>."""
    if not (datagram.startswith(b"<PACKT>") and datagram.endswith(b"</PACKT>")):
        return None
    body = datagram[7:-8]
    if not body.startswith(b"<SRCCN>"):
        return None
    a = body.find(b"</SRCCN><DESCN>")
    if a < 0:
        return None
    src = body[7:a]
    rest = body[a + 15:]
    b = rest.find(b"</DESCN><DATAS>")
    if b < 0:
        return None
    dst = rest[:b]
    data = rest[b + 15:]
    if not data.endswith(b"</DATAS>"):
        return None
    return src, dst, data[:-8]


# ------------------------------------------------------------------ message bodies (inside <DATAS>)


def ping_request():
    return b"APING"


def ping_response():
    return b"APING\x00"


def version_request(seq):
    return b"AVERS" + u8(seq)


def version_response(en, co):
    return b"SVERS" + u16(en[0]) + u8(en[1]) + u8(en[2]) + u16(co[0]) + u8(co[1]) + u8(co[2])


def channel_request(seq):
    return b"CURCH" + u8(seq)


def channel_response(channel, signal):
    return b"CHCUR" + u8(channel) + u8(signal)


def configfile_request(seq):
    return b"SFILE" + u8(seq)


def configfile_response(platform: str, cfg: int, log: int):
    return (b"FILES," + platform.encode("latin-1") + b"_C" + f"{cfg:02d}".encode() + b".xml,"
            + platform.encode("latin-1") + b"_S" + f"{log:02d}".encode() + b".xml")


def status_request(seq, start, length):
    return b"STATU" + u8(seq) + u16(start) + u16(length)


def status_segment(index, nxt, data: bytes):
    return b"STATV" + u8(index) + u8(nxt) + u8(len(data)) + data


def partial_update(changes):
    """changes: [(pos, data bytes)]"""
    return b"STATP" + u8(len(changes)) + b"".join(u16(p) + d for p, d in changes)


def partial_ack(seq):
    return b"STATQ" + u8(seq)


def pack_keypress(seq, pack_type, key):
    return b"SPACK" + u8(seq) + u8(pack_type) + u8(2) + u8(57) + u8(key)


def pack_set_value(seq, pack_type, cfg, log, pos, length, value):
    data = u8(value) if length == 1 else u16(value)
    return b"SPACK" + u8(seq) + u8(pack_type) + u8(5 + length) + u8(70) + u8(cfg) + u8(log) + u16(pos) + data


def pack_response():
    return b"PACKS"


def watercare_request(seq):
    return b"GETWC" + u8(seq)


def watercare_response(mode):
    return b"WCGET" + u8(mode)


def watercare_set(seq, mode):
    return b"SETWC" + u8(seq) + u8(mode)


def watercare_set_response():
    return b"WCSET"


def reminders_request(seq):
    return b"REQRM" + u8(seq)


def reminders_response(reminders):
    return b"RMREQ" + b"".join(u8(t) + i16le(d) + u8(1) for t, d in reminders)


def firmware_request(seq):
    return b"UPDTS" + u8(seq)


def firmware_response():
    return b"SUPDT\x00"


def rferr():
    return b"RFERR"


# ------------------------------------------------------------------ decoding helpers used by the worlds


def verb(content: bytes) -> bytes:
    return content[:5]


def parse_statp(content: bytes):
    n = content[5]
    out = []
    for i in range(n):
        rec = content[6 + 4 * i: 10 + 4 * i]
        out.append((int.from_bytes(rec[:2], "big"), rec[2:4]))
    return out
