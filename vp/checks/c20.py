"""C20  Threaded engine: FIFO paced sends, first-match dispatch, bounded handler life.

The real GeckoUdpSocket._thread_func is stepped on the harness thread (engine E4, virtual
time).  Part "engine": generated registration orders of handlers (harness subclasses of the
library's GeckoUdpProtocolHandler, so loop / retry / has_timedout / handled are the library's),
arrival scripts of datagrams, bursts of queued sends and requests with generated (timeout,
retries) that are answered, answered late, stolen by an earlier handler, or never answered.
Part "handshake": the blocking GeckoSpa connects to the in-process simulator while a generated
number of attempts of every handshake step is destroyed (request lost, reply lost, some status
segments lost, final segment lost) before one attempt gets through.
"""
from hypothesis import strategies as st

from .. import packs, stepped, vworld
from ..runner import HarnessError, InvalidCase, Result, classify_exception

ID = "C20"
LEVEL = "fault_enumeration"
RULE = (
    "generated: (engine) 1..6 handlers in generated registration order with accepted-verb sets, raising handle() / on_handled / "
    "can_handle, remove-on-handle flags; 0..14 datagrams (known, unknown verbs, duplicates) at generated virtual times and floods of 5..40 "
    "datagrams 1..21 ms apart (engine iterations faster than the send throttle); bursts of "
    "1..5 queued sends (one of them possibly untransmittable: no send_bytes / no destination); 0..3 requests with timeout T in {1,2.5,4} s and N in 0..6 retries, answered at a generated time / never "
    "/ reply claimed by an earlier handler / first transmission refused by the OS (sendto raises); (handshake) per step (version, channel, config file, status block) 0..10 destroyed "
    "attempts of kinds {request lost, reply lost, middle segments lost, final segment lost, all segments lost} followed by a clean "
    "attempt, on a shipped snapshot. Non-trivial = >=2 handlers accepting one datagram, or a request that is retried, or losses in "
    ">=2 handshake steps; distinct by canonical case."
)
ASSUMPTIONS = [
    "engine iterations are stepped deterministically: recvfrom returns the next datagram that has arrived or times out after the socket timeout (0.05 virtual s); harness actions (queue_send, add_receive_handler) happen at iteration boundaries",
    "a retransmission that was already queued when the answer is processed may still leave (the send queue is not purged); 'no further transmission' is read as: no retry is queued after the answer",
    "request timeouts are >= 1 s and at most 13 sends are queued at once (one leaves per 0.05 s iteration), so a request's first transmission has left before its first timeout (retry() re-uses the destination of the last transmission)",
    "a raising can_handle() leaves it unspecified who handles that datagram; only engine survival and later dispatch are checked for it",
]
BUDGET = {
    "quick": {"workers": 16, "examples": 9600},
    "thorough": {"workers": 16, "examples": 60000},
}

DEST = ("10.0.0.50", 10022)
VERBS = [b"AAAAA", b"BBBBB", b"CCCCC", b"DDDDD", b"EEEEE"]
THROTTLE = 1.0 / 50
ITER = 0.05


def strategy(tier):
    handler = st.builds(lambda v, m, r: {"verbs": sorted(set(v)), "mode": m, "remove": r},
                        st.lists(st.integers(0, 4), min_size=1, max_size=3),
                        st.sampled_from(["ok", "ok", "ok", "handle", "callback", "can_handle"]), st.sampled_from([False, False, True]))
    tm = st.integers(0, 240).map(lambda x: x / 20.0)
    dgram = st.tuples(tm, st.integers(0, 6)).map(list)  # verb 5 = unknown, 6 = request reply verb family
    # third element: which send of the burst cannot be transmitted (0 = none, k = the k-th has no send_bytes, -k = the k-th has no destination)
    burst = st.tuples(tm, st.integers(1, 5), st.sampled_from([0, 0, 1, 2, -1, -3, 7, 7])).map(list)
    req = st.builds(lambda t, T, N, a, steal, refuse: dict({"t": t, "T": T, "N": N, "answer": a, "shadow": steal}, **({"refused": True} if refuse else {})),
                    tm, st.sampled_from([1.0, 1.0, 2.5, 4.0]), st.integers(0, 6),
                    # the answer: never / at a generated time / just after the k-th timeout has elapsed (a late answer that meets the
                    # engine iteration in which the request also looks timed out)
                    st.one_of(st.none(), st.integers(0, 400).map(lambda x: x / 20.0),
                              st.tuples(st.just("late"), st.integers(1, 2), st.sampled_from([0.005, 0.015, 0.025, 0.035, 0.045])).map(list)),
                    st.sampled_from([False, False, False, True]),
                    st.sampled_from([False, False, False, True]))
    flood = st.tuples(tm, st.integers(5, 40), st.sampled_from([1, 2, 5, 10, 19, 21])).map(list)   # k datagrams gap ms apart: fast engine iterations
    # the engine thread is held up (ms) between taking the k-th datagram off the send queue and handing it to the OS
    slow = st.one_of(st.just([]), st.just([]), st.lists(st.sampled_from([0, 0, 0, 5, 15, 30, 45]), min_size=1, max_size=12))
    engine = st.builds(lambda h, d, b, r, f, sl: dict({"part": "engine", "handlers": h, "datagrams": sorted(d), "bursts": sorted(b)[:2], "requests": r, "floods": f},
                                                      **({"slow_sends": sl} if any(sl) else {})),
                       st.lists(handler, min_size=1, max_size=6), st.lists(dgram, max_size=14), st.lists(burst, max_size=2), st.lists(req, max_size=3),
                       st.lists(flood, max_size=2), slow)
    fail = st.sampled_from(["req", "rep"])
    sfail = st.sampled_from(["req", "mid", "mid", "final", "all", "first"])
    nf = st.one_of(st.integers(0, 2), st.integers(0, 2), st.integers(0, 10))
    # one step may never be answered at all: the request must be given up after its retry budget and leave the engine
    exhaust = st.one_of(st.none(), st.none(), st.none(), st.sampled_from(["AVERS", "CURCH", "SFILE", "STATU"]))
    hs = st.builds(lambda snap, a, c, f, s, segs, ex: dict({"part": "handshake", "snapshot": snap, "AVERS": a, "CURCH": c, "SFILE": f, "STATU": s, "segs": segs},
                                                           **({"exhaust": ex} if ex else {})),
                   st.integers(0, 60), st.lists(fail, max_size=10) | st.lists(fail, max_size=2), st.lists(fail, max_size=10) | st.lists(fail, max_size=2),
                   st.lists(st.sampled_from(["req", "rep", "garble"]), max_size=10) | st.lists(st.sampled_from(["req", "rep", "garble"]), max_size=2),
                   st.lists(sfail, max_size=10) | st.lists(sfail, max_size=3),
                   st.lists(st.integers(0, 25), min_size=1, max_size=4), exhaust)
    hs = st.tuples(hs, st.one_of(st.none(), st.none(), st.none(), st.tuples(st.sampled_from([0.95, 0.9, 0.8]), st.integers(0, 10**6)).map(list))).map(
        lambda t: dict(t[0], rel=t[1]) if t[1] else t[0])
    return st.one_of(engine, engine, hs)


# ------------------------------------------------------------------ engine part


class _Eng(stepped.Engine):
    def __init__(self, ev):
        super().__init__()
        self.ev = ev
        self.fail_once = set()   # payloads whose next transmission the OS refuses (sendto raises OSError)
        self.refused = []

    def on_send(self, data, addr):
        if data in self.fail_once:
            self.fail_once.discard(data)
            self.refused.append((self.vt.t, data))
            raise OSError(101, "Network is unreachable")
        return super().on_send(data, addr)

    def on_recv(self):
        data, addr = super().on_recv()   # raises socket.timeout when nothing arrives
        self.ev.append(("recv", data, self.vt.t))
        return data, addr


def enumerated(tier):
    """a handler registered by another thread at every lock release of a short run in which a request is answered and removed (the
    window between the two locked sections of the engine's clean-up pass is one of them); a datagram for it arrives afterwards"""
    fam = []
    for k in range(1, 121):
        fam.append({"part": "engine", "handlers": [{"verbs": [0], "mode": "ok"}], "datagrams": [[1.2, 2], [1.25, 0]], "bursts": [], "floods": [],
                    "requests": [{"t": 0.1, "T": 1.0, "N": 1, "answer": 0.2}], "late": {"k": k, "verbs": [2]}})
    return len(fam), lambda i: fam[i]


def _part_engine(res, case):
    from geckolib.driver import GeckoUdpProtocolHandler, GeckoUdpSocket

    hspecs = case.get("handlers", [])
    if not (1 <= len(hspecs) <= 6):
        raise InvalidCase(case)
    ev = []          # unified event log
    qlog = []        # (time, hid) in queue_send order
    eng = _Eng(ev)
    eng.send_delays = [min(max(int(x), 0), 60) / 1000.0 for x in case.get("slow_sends", [])]
    info = {"multi": False, "retried": False, "bad_send": False, "refused": False, "slow": bool(eng.send_delays)}

    with eng.patched():
        sock = eng.attach(GeckoUdpSocket())
        vt = eng.vt

        class H(GeckoUdpProtocolHandler):
            def __init__(self, hid, verbs, mode="ok", remove=False, **kw):
                if mode == "callback":
                    kw["on_handled"] = self._cb
                super().__init__(**kw)
                self.hid, self.verbs, self.mode, self.remove = hid, verbs, mode, remove

            def _cb(self, handler, sender):
                ev.append(("callback", self.hid, vt.t))
                raise RuntimeError("on_handled raises")

            def can_handle(self, data, sender):
                hit = any(data.startswith(v) for v in self.verbs)
                if hit and self.mode == "can_handle":
                    ev.append(("raise-can", self.hid, vt.t))
                    raise RuntimeError("can_handle raises")
                return hit

            def handle(self, data, sender):
                ev.append(("handle", self.hid, data, vt.t))
                if self.mode == "handle":
                    raise RuntimeError("handle raises")
                if self.remove:
                    self._should_remove_handler = True
                    ev.append(("flag", self.hid, vt.t))

            def __repr__(self):
                return f"H{self.hid}"

        real_queue_send = sock.queue_send

        def queue_send(handler, destination):
            qlog.append((vt.t, getattr(handler, "hid", None), destination))
            ev.append(("queue", getattr(handler, "hid", None), vt.t))
            return real_queue_send(handler, destination)

        sock.queue_send = queue_send
        t0 = vt.t
        hs = {}
        for i, spec in enumerate(hspecs):
            verbs = [VERBS[int(v) % 5] for v in spec.get("verbs", [0])]
            h = H(f"h{i}", verbs, spec.get("mode", "ok"), bool(spec.get("remove")))
            hs[h.hid] = h
            sock.add_receive_handler(h)
            ev.append(("reg", h.hid, vt.t))
        # another thread (a client thread, the ping thread) registers one more handler at the instant the engine releases its lock for
        # the k-th time - the only places where a real second thread can get in between two steps of the engine
        late = case.get("late")
        if late:
            real_lock = sock._lock
            late_state = {"n": 0, "done": False, "busy": False}

            class HookLock:
                def __enter__(self_):
                    return real_lock.__enter__()

                def __exit__(self_, *a):
                    r_ = real_lock.__exit__(*a)
                    if not late_state["busy"] and not late_state["done"]:
                        late_state["n"] += 1
                        if late_state["n"] == int(late["k"]):
                            late_state["busy"] = True
                            try:
                                hl = H("late", [VERBS[int(v) % 5] for v in late.get("verbs", [2])])
                                hs[hl.hid] = hl
                                sock.add_receive_handler(hl)
                                ev.append(("reg", hl.hid, vt.t))
                                info["late_registered_at"] = vt.t - t0
                            finally:
                                late_state["busy"] = False
                                late_state["done"] = True
                    return r_

                def acquire(self_, *a, **k):
                    return real_lock.acquire(*a, **k)

                def release(self_):
                    return real_lock.release()

                def locked(self_):
                    return real_lock.locked()
            sock._lock = HookLock()
        # requests
        reqs = []
        for j, r in enumerate(case.get("requests", [])[:3]):
            T, N = float(r["T"]), int(r["N"])
            if T < 1.0 or not (0 <= N <= 10):
                raise InvalidCase(case)
            ans = r.get("answer")
            if isinstance(ans, (list, tuple)):
                if ans[0] != "late":
                    raise InvalidCase(case)
                ans = int(ans[1]) * T + float(ans[2])
            reqs.append({"id": f"r{j}", "t": float(r["t"]), "T": T, "N": N, "answer": ans, "shadow": bool(r.get("shadow")), "refused": bool(r.get("refused")),
                         "verb": b"RPLY%d" % j, "h": None, "created": None, "failed": [], "gone_at": None})
        # datagram script
        n = 0
        for t, v in case.get("datagrams", []):
            v = int(v)
            if v <= 4:
                body = VERBS[v]
            elif v == 5:
                body = b"ZZZZZ"
            else:
                body = b"RPLY%d" % (n % 3)
            eng.deliver(body + b"#%04d" % n, DEST, at=t0 + float(t))
            n += 1
        for t, k, gap in case.get("floods", [])[:2]:
            for i in range(min(int(k), 40)):
                eng.deliver(VERBS[(n + i) % 5] + b"#f%03d" % n, DEST, at=t0 + float(t) + i * max(int(gap), 1) / 1000.0)
                n += 1
        for r in reqs:
            if r["answer"] is not None:
                eng.deliver(r["verb"] + b"#ans", DEST, at=t0 + r["t"] + float(r["answer"]))
        # scheduled harness actions
        actions = []
        sid = [0]
        for b in case.get("bursts", [])[:2]:
            actions.append((float(b[0]), "burst", (min(int(b[1]), 5), int(b[2]) if len(b) > 2 else 0)))
        for r in reqs:
            actions.append((r["t"], "request", r))
        actions.sort(key=lambda a: a[0])
        horizon = max([a[0] for a in actions] + [float(t) for t, _ in case.get("datagrams", [])] + [float(f[0]) + 1.0 for f in case.get("floods", [])] + [0.0]) + 2.0
        for r in reqs:
            horizon = max(horizon, r["t"] + (r["N"] + 1) * (r["T"] + 0.1) + (float(r["answer"]) if r["answer"] is not None else 0.0) + 2.0)

        def on_iteration(e):
            now = vt.t - t0
            ev.append(("iter", None, vt.t))
            while actions and actions[0][0] <= now:
                _, kind, arg = actions.pop(0)
                if kind == "burst":
                    count, bad = arg
                    if bad == 7:
                        # the same handler objects queued again while their earlier copies are still waiting (as the ping thread and a
                        # hello responder do): the queue is a FIFO of the calls, not a set of handlers
                        pair_ = [H(f"s{sid[0]}", [], send_bytes=b"SEND%03d" % sid[0]), H(f"s{sid[0] + 1}", [], send_bytes=b"SEND%03d" % (sid[0] + 1))]
                        sid[0] += 2
                        for i in range(count + 1):
                            sock.queue_send(pair_[i % 2], DEST)
                        info["reuse"] = True
                        count = 0
                    for i in range(count):
                        if bad and i + 1 == abs(bad):
                            # a send that cannot be transmitted: building it raises (no send_bytes) or it has no destination
                            s = H(f"x{sid[0]}", [], **({} if bad > 0 else {"send_bytes": b"NODEST"}))
                            info["bad_send"] = True
                            sock.queue_send(s, DEST if bad > 0 else None)
                        else:
                            s = H(f"s{sid[0]}", [], send_bytes=b"SEND%03d" % sid[0])
                            sock.queue_send(s, DEST)
                        sid[0] += 1
                else:
                    r = arg
                    if r["shadow"]:
                        # an earlier-registered handler that claims the reply verb as well
                        sh = H(f"{r['id']}-shadow", [r["verb"]])
                        hs[sh.hid] = sh
                        sock.add_receive_handler(sh)
                        ev.append(("reg", sh.hid, vt.t))

                    def failed(handler, socket, r=r):
                        r["failed"].append(vt.t)
                        ev.append(("flag", r["id"], vt.t))
                        GeckoUdpProtocolHandler._default_retry_failed_handler(handler, socket)

                    h = H(r["id"], [r["verb"]], "ok", True, send_bytes=b"REQ" + r["id"].encode(), timeout=r["T"], retry_count=r["N"], on_retry_failed=failed)
                    r["h"], r["created"] = h, vt.t
                    if r["refused"]:
                        eng.fail_once.add(h._send_bytes)   # the OS refuses its first transmission (interface still down)
                    hs[h.hid] = h
                    sock.add_receive_handler(h)
                    ev.append(("reg", h.hid, vt.t))
                    sock.queue_send(h, DEST)
            for r in reqs:
                if r["h"] is not None and r["gone_at"] is None and r["h"] not in sock._receive_handlers:
                    r["gone_at"] = vt.t

        eng.on_iteration = on_iteration
        eng.max_iterations = 200000
        eng.stop_when = lambda: vt.t - t0 > horizon and not actions and not eng.inbox and (not sock._send_handlers or vt.t - t0 > horizon + 30)
        try:
            eng.run()
        except Exception as exc:  # noqa
            is_lib, site = classify_exception(exc)
            if not is_lib:
                raise
            res.fail(f"C20|engine-died|{site}", f"the engine loop ended with {type(exc).__name__}: {exc}")
            return info
        on_iteration(eng)
        final_handlers = list(sock._receive_handlers)

    # every engine iteration may have been stretched by the longest hold-up before a send
    SLOW = max([min(max(int(x), 0), 60) / 1000.0 for x in case.get("slow_sends", [])] + [0.0])
    # ---- O1: FIFO, paced
    sent = [(t, d) for t, d, _ in eng.sent]
    exp_order = []
    refused_left = {d for _, d in eng.refused}
    for t, hid, dest in qlog:
        if hid is None or hid.startswith("x"):
            continue   # x..: a send that cannot be transmitted; it must be dropped without holding up the queue
        payload = hs[hid]._send_bytes if hid in hs else b"SEND%03d" % int(hid[1:])
        if payload in refused_left:
            refused_left.discard(payload)
            continue   # the transmission the OS refused never reached the wire; the later ones must
        exp_order.append(payload)
    got_order = [d for _, d in sent]
    if got_order != exp_order:
        k = next((i for i, (a, b) in enumerate(zip(got_order, exp_order)) if a != b), min(len(got_order), len(exp_order)))
        res.fail("C20|send-order" if len(got_order) == len(exp_order) else "C20|send-count",
                 f"datagrams left as {got_order[max(0, k - 2):k + 3]} (#{k}), queued as {exp_order[max(0, k - 2):k + 3]}; {len(got_order)} sent / {len(exp_order)} queued")
    for (ta, _), (tb, db) in zip(sent, sent[1:]):
        if tb - ta < THROTTLE - 1e-9:
            res.fail("C20|send-pacing", f"{db!r} left {tb - ta:.4f}s after the previous datagram (throttle {THROTTLE:.3f}s)")
            break

    # ---- O2: first registered accepting handler only (model replay over the event log)
    reg, flagged = [], set()
    cur = None   # (data, expected hid or None, unspecified?)
    handled_by = []

    def close(cur, handled_by):
        if cur is None:
            return
        data, exp, unspecified = cur
        if len(handled_by) > 1:
            res.fail("C20|dispatch|twice", f"{data!r} was handled by {handled_by}")
        elif unspecified:
            return
        elif exp is None and handled_by:
            res.fail("C20|dispatch|unaccepted", f"{data!r} was handled by {handled_by[0]} although no registered handler accepts it")
        elif exp is not None and not handled_by:
            res.fail("C20|dispatch|lost", f"{data!r} was not handled although {exp} is registered and accepts it")
        elif exp is not None and handled_by[0] != exp:
            res.fail("C20|dispatch|not-first", f"{data!r} went to {handled_by[0]}, the first registered accepting handler is {exp} (order {reg})")

    for e in ev:
        kind = e[0]
        if kind == "reg":
            reg.append(e[1])
        elif kind == "iter":
            # cleanup ran at the end of the previous iteration
            if flagged:
                reg = [h for h in reg if h not in flagged]
                flagged = set()
        elif kind == "flag":
            flagged.add(e[1])
        elif kind == "recv":
            close(cur, handled_by)
            data = e[1]
            exp, unspecified = None, False
            acc = 0
            for hid in reg:
                h = hs.get(hid)
                if h is None:
                    continue
                if any(data.startswith(v) for v in h.verbs):
                    acc += 1
                    if exp is None and not unspecified:
                        if h.mode == "can_handle":
                            unspecified = True
                        else:
                            exp = hid
            if acc >= 2:
                info["multi"] = True
            cur, handled_by = (data, exp, unspecified), []
        elif kind == "handle":
            if cur is None or e[2] != cur[0]:
                res.fail("C20|dispatch|stale", f"{e[1]} handled {e[2]!r} which is not the datagram being dispatched")
            else:
                handled_by.append(e[1])
    close(cur, handled_by)

    # ---- O4/O5: request life
    for r in reqs:
        if r["h"] is None:
            continue
        hid, T, N = r["id"], r["T"], r["N"]
        queues = [t for t, h, _ in qlog if h == hid]
        retries = queues[1:]
        handled = [e[3] for e in ev if e[0] == "handle" and e[1] == hid]
        if retries:
            info["retried"] = True
        sends = [t for t, d in sent if d == b"REQ" + hid.encode()]
        n_refused = sum(1 for _, d in eng.refused if d == b"REQ" + hid.encode())
        if n_refused:
            info["refused"] = True
        if len(sends) + n_refused != len(queues):
            res.fail("C20|request|transmissions", f"{hid}: queued {len(queues)} times, transmitted {len(sends)} times")
        resets = sorted([r["created"]] + handled + retries)
        for tr in retries + r["failed"]:
            last = max(x for x in resets if x < tr - 1e-12)
            age = tr - last
            if not (T < age <= T + ITER + 0.015 + SLOW):
                res.fail("C20|request|retry-timing", f"{hid} (T={T}, N={N}): retry/failure at +{tr - r['created']:.3f}s, {age:.3f}s after the last transmission/reply "
                         f"(expected within ({T}, {T + ITER + 0.015 + SLOW:.3f}])")
                break
        if handled:
            ta = handled[0]
            late = [t for t in retries if t > ta + 1e-9]
            if late:
                res.fail("C20|request|retry-after-answer", f"{hid}: {len(late)} retransmission(s) queued after the reply was handled")
            if r["failed"]:
                res.fail("C20|request|failed-after-answer", f"{hid}: on_retry_failed called although the request was answered")
            if r["gone_at"] is None or r["gone_at"] > ta + 2 * ITER + 0.02 + 2 * SLOW:
                res.fail("C20|request|not-removed-after-answer", f"{hid}: still registered {'for ever' if r['gone_at'] is None else f'{r['gone_at'] - ta:.3f}s'} after its reply")
        else:
            if len(retries) != N:
                res.fail("C20|request|retry-count", f"{hid} (T={T}, N={N}) unanswered: {len(retries)} retransmissions, expected exactly {N}")
            if len(r["failed"]) != 1:
                res.fail("C20|request|retry-failed-calls", f"{hid}: on_retry_failed called {len(r['failed'])} times, expected once after the last retry timed out")
            elif r["gone_at"] is None or r["gone_at"] > r["failed"][0] + 2 * ITER + 0.02 + 2 * SLOW:
                res.fail("C20|request|not-removed-after-failure", f"{hid}: still registered after its retries were exhausted")
        if r["h"] in final_handlers:
            res.fail("C20|request|still-registered", f"{hid} is still in the handler list at the end")
    return info


# ------------------------------------------------------------------ handshake part


class _LossPolicy:
    """destroys the first len(plan[verb]) attempts of each step, then lets attempts through"""

    STEP = {b"AVERS": "AVERS", b"CURCH": "CURCH", b"SFILE": "SFILE", b"STATU": "STATU"}

    def __init__(self, plan, segs):
        self.plan = plan
        self.segs = segs
        self.attempt = {k: 0 for k in plan}
        self.current = None   # (step, failure kind or None)
        self.requests = {k: 0 for k in plan}
        self.destroyed = {k: 0 for k in plan}

    def _step(self, data):
        i = data.find(b"<DATAS>")
        return self.STEP.get(data[i + 7:i + 12]) if i >= 0 else None

    def c2s(self, data):
        step = self._step(data)
        if step is None:
            self.current = None
            return None
        k = self.attempt[step]
        self.attempt[step] += 1
        self.requests[step] += 1
        kind = self.plan[step][k] if k < len(self.plan[step]) else None
        self.current = (step, kind)
        if kind is not None:
            self.destroyed[step] += 1
        return "drop" if kind == "req" else "deliver"

    def s2c(self, data, i, n):
        if self.current is None:
            return None
        step, kind = self.current
        if kind is None:
            return "deliver"
        if kind in ("rep", "all"):
            return "drop"
        if kind == "garble":
            # a well-framed answer that the client's decoder rejects (the two file names disagree about the platform): the request
            # stays unanswered and must be retried like a lost one
            i0 = data.find(b"<DATAS>")
            return ("replace", data[:i0 + 7] + b"FILES,inXM_C09.xml,inYE_S09.xml" + b"</DATAS></PACKT>") if i0 >= 0 else "drop"
        if kind == "final":
            return "drop" if i == n - 1 else "deliver"
        if kind == "first":
            return "drop" if i == 0 else "deliver"
        if kind == "mid":
            mids = {1 + (s % max(1, n - 2)) for s in (self.segs or [3])} if n > 2 else {0}
            return "drop" if i in mids else "deliver"
        return "deliver"


def _part_handshake(res, case):
    files = packs.snapshot_files()
    snaps = []
    for p in files:
        snaps.extend(vworld.load_snapshot(p))
    snap = snaps[int(case.get("snapshot", 0)) % len(snaps)]
    plan = {}
    for step in ("AVERS", "CURCH", "SFILE", "STATU"):
        kinds = list(case.get(step, []))[:10]
        ok = ("req", "rep") + (("garble",) if step == "SFILE" else ()) if step != "STATU" else ("req", "mid", "final", "all", "first")
        if any(k not in ok for k in kinds):
            raise InvalidCase(case)
        plan[step] = kinds
    rel = case.get("rel")
    exhaust = case.get("exhaust") if not rel else None
    if exhaust is not None:
        if exhaust not in plan:
            raise InvalidCase(case)
        plan[exhaust] = ["rep"] * 40      # every reply of that step is lost, for ever
    sim = vworld.make_simulator(snap)
    eng = stepped.Engine()
    pol = _LossPolicy(plan, [int(x) for x in case.get("segs", [3])])
    import geckolib.utils.simulator as simmod
    import random as _random
    saved_random = simmod.random
    if rel:
        # instead of the per-step plan: the simulator's own reliability knob (seeded draw) loses requests and single segments
        plan = {k_: [] for k_ in plan}
        pol = _LossPolicy(plan, [3])
        simmod.random = _random.Random(int(rel[1]))
        sim._reliability = float(rel[0])
    with eng.patched():
        spa = stepped.make_threaded_spa(eng, sim)
        eng.policy = pol
        spa.start_connect()
        if rel:
            try:
                ok = stepped.run_until(eng, lambda: spa._is_connected and not eng.inbox and not spa._send_handlers, max_iterations=30000)
            except Exception as exc:  # noqa
                is_lib, site = classify_exception(exc)
                if not is_lib or "Too many retries" in str(exc):
                    if not is_lib:
                        raise
                    return plan      # the retry budget may legitimately run out under random loss
                res.fail(f"C20|handshake|engine-died|{site}", f"{type(exc).__name__}: {exc} with simulator reliability {rel[0]}")
                return plan
            finally:
                simmod.random = saved_random
                sim._reliability = 1.0
            if ok and spa.struct.status_block != sim.structure.status_block:
                bad = [i for i in range(1024) if i >= len(spa.struct.status_block) or spa.struct.status_block[i] != sim.structure.status_block[i]][:6]
                res.fail("C20|handshake|block-differs", f"simulator reliability {rel[0]}: connected but the client block ({len(spa.struct.status_block)} bytes) "
                         f"differs from the simulator's at {bad}")
            return plan
        if exhaust is not None:
            from geckolib import GeckoConfig
            n_retry, t_out = GeckoConfig.PROTOCOL_RETRY_COUNT, GeckoConfig.PROTOCOL_TIMEOUT_IN_SECONDS
            t_stop = eng.vt.t + 4 * (n_retry + 1) * (t_out + 0.1) + 30.0     # all four steps could use their whole budget
            try:
                stepped.run_until(eng, lambda: eng.vt.t >= t_stop, max_iterations=60000)
            except Exception as exc:  # noqa
                is_lib, site = classify_exception(exc)
                if not is_lib:
                    raise
                res.fail(f"C20|handshake|engine-died|{site}", f"{type(exc).__name__}: {exc} with step {exhaust} never answered")
                return plan
            if pol.requests[exhaust] != n_retry + 1:
                res.fail(f"C20|handshake|exhaust|transmissions|{exhaust}", f"{exhaust} never answered: {pol.requests[exhaust]} transmissions, "
                         f"1 + retry count {n_retry} expected")
            cls_ = {"AVERS": "GeckoVersionProtocolHandler", "CURCH": "GeckoGetChannelProtocolHandler", "SFILE": "GeckoConfigFileProtocolHandler",
                    "STATU": "GeckoStatusBlockProtocolHandler"}[exhaust]
            left = [type(h).__name__ for h in spa._receive_handlers if type(h).__name__ == cls_]
            if left:
                res.fail(f"C20|handshake|exhaust|request-never-removed|{exhaust}", f"{exhaust} never answered: {int(eng.vt.t - (t_stop - 30.0)):d}s after the whole "
                         f"retry budget the request handlers {left} are still registered (the connection stays busy for ever)")
            return plan
        try:
            ok = stepped.run_until(eng, lambda: spa._is_connected and not eng.inbox and not spa._send_handlers, max_iterations=12000)
        except Exception as exc:  # noqa
            is_lib, site = classify_exception(exc)
            if not is_lib:
                raise
            res.fail(f"C20|handshake|engine-died|{site}", f"{type(exc).__name__}: {exc} with plan {plan}")
            return plan
        if not ok:
            res.fail("C20|handshake|not-connected", f"blocking client did not connect although attempt {[len(v) + 1 for v in plan.values()]} of each step got through "
                     f"(requests sent {pol.requests}, virtual time {eng.vt.t - 5000:.0f}s)")
            return plan
        if spa.struct.status_block != sim.structure.status_block:
            bad = [i for i in range(1024) if spa.struct.status_block[i] != sim.structure.status_block[i]][:6]
            res.fail("C20|handshake|block-differs", f"connected but the client block differs from the simulator's at {bad}")
        for step, kinds in plan.items():
            # a status transfer may complete early: segments collected before a lost final segment are kept across the timeout
            # retry, so a later damaged attempt can supply the missing tail (same bytes - the spa block is constant here)
            lo = 1 if step == "STATU" else len(kinds) + 1
            if not (lo <= pol.requests[step] <= len(kinds) + 1):
                res.fail(f"C20|handshake|attempts|{step}", f"{step}: {pol.requests[step]} requests on the wire, {len(kinds)} destroyed attempts + 1 clean one expected")
    return plan


def run_case(case) -> Result:
    res = Result()
    part = case.get("part")
    if part == "engine":
        info = _part_engine(res, case)
        res.nontrivial = bool(info["multi"] or info["retried"])
        res.label("engine")
        if info["multi"]:
            res.label("engine-several-acceptors")
        if info["retried"]:
            res.label("engine-request-retried")
        if any(h.get("mode") in ("handle", "callback", "can_handle") for h in case.get("handlers", [])):
            res.label("engine-raising-handler")
        if info["bad_send"]:
            res.label("engine-untransmittable-send")
        if info.get("refused"):
            res.label("engine-first-transmission-refused")
        if info.get("reuse"):
            res.label("engine-handler-object-queued-repeatedly")
        if info.get("slow"):
            res.label("engine-held-up-before-sendto")
        if info.get("late_registered_at") is not None:
            res.label("engine-handler-registered-by-another-thread")
    elif part == "handshake":
        plan = _part_handshake(res, case)
        lossy = sum(1 for v in plan.values() if v)
        res.nontrivial = lossy >= 2
        res.label("handshake", f"handshake-lossy-steps-{lossy}")
        if any(len(v) >= 8 for v in plan.values()):
            res.label("handshake-near-retry-budget")
        if case.get("exhaust") and not case.get("rel"):
            res.nontrivial = True
            res.label("handshake-step-never-answered")
        if case.get("rel"):
            res.nontrivial = True
            res.label("handshake-simulator-reliability-below-1")
    else:
        raise InvalidCase(case)
    return res
