"""C11  Every shipped pack table yields a facade whose read-only API is total.

Every platform x cfg x log combination present in the shipped tables is given generated status
blocks (zero / ones / pseudo-random / shipped snapshots of any platform / mutated blocks whose
enum fields are pushed beyond their label lists), a watercare byte and a reminder list as a spa
can report them (decoded by the real protocol handlers).  The async facade is built on a real
GeckoAsyncSpa object filled the way _connect fills it (inside a running loop, its update task
cancelled at once), the blocking facade through spa.on_connected on a never-opened GeckoSpa
(threads inert).  Then every read-only member is evaluated by reflection.
"""
import asyncio
import inspect
import struct as _struct

from hypothesis import strategies as st

from .. import clients, facades, packs, stepped, vworld
from ..runner import HarnessError, InvalidCase, Result, classify_exception

ID = "C11"
LEVEL = "exploration"
RULE = (
    "enumerated: every shipped platform x cfg x log combination x base blocks {zero, ones, pseudo-random, enum-overflow "
    "(every enum field at its highest raw value)} for the async and the blocking facade (exhaustive in the configuration "
    "dimension); generated: combination x block built from {zero, ones, random, any shipped snapshot} + 0..12 item-anchored "
    "mutations (enum/bool/byte/word fields set to generated raw values) x watercare byte 0..255/None x reminder records "
    "(type byte 0..255, days int16). Non-trivial = block that is not a shipped snapshot as is; distinct by (combination, "
    "block digest, watercare, reminders, facade kind)."
)
ASSUMPTIONS = [
    "read-only member = every property of the facade, of each entry of its device lists and of the objects they expose (state sensors, reminders), plus str(), repr(), monitor, devices, get_device(k), state_sensor()",
    "items of a table that lie outside the 1024-byte block (C18 known finding) are not readable by construction; they are reported under their own signature",
]
BUDGET = {
    "quick": {"workers": 16, "examples": 6400, "bases": 8},
    "thorough": {"workers": 16, "examples": 48000, "bases": 24},
}
EXHAUSTIVE_NOTE = "configuration dimension: all platform x cfg x log combinations"

_SNAPS = None


def _snapshots():
    global _SNAPS
    if _SNAPS is None:
        out = []
        for p in packs.snapshot_files():
            for s in vworld.load_snapshot(p):
                b = bytes(s.bytes)
                if len(b) == 1024:
                    out.append(b)
        _SNAPS = out
    return _SNAPS


def make_block(spec, pair):
    base = spec.get("base", "zero")
    if base == "zero":
        b = bytearray(1024)
    elif base == "ones":
        b = bytearray(b"\xff" * 1024)
    elif base == "rand":
        b = bytearray(clients.prng("c11", spec.get("seed", 0), n=1024))
    elif base == "snap":
        snaps = _snapshots()
        b = bytearray(snaps[int(spec.get("seed", 0)) % len(snaps)])
    elif base == "enum-max":
        b = bytearray(clients.prng("c11e", spec.get("seed", 0), n=1024))
        for it in pair.items.values():
            if it.kind == "Enum" and it.pos + it.width <= 1024:
                pos, w, word = it.encode_raw(bytes(b), it.capacity - 1)
                b[pos:pos + w] = int(word).to_bytes(w, "big")
    else:
        raise InvalidCase(spec)
    tags = sorted(pair.items)
    for m in spec.get("mut", []):
        ti, raw = int(m[0]), int(m[1])
        it = pair.items[tags[ti % len(tags)]]
        if it.pos + it.width > 1024:
            continue
        pos, w, word = it.encode_raw(bytes(b), raw % it.capacity)
        b[pos:pos + w] = int(word).to_bytes(w, "big")
    return bytes(b)


def strategy(tier):
    n = len(packs.combos())
    mut = st.tuples(st.integers(0, 4000), st.one_of(st.integers(0, 15), st.integers(0, 65535))).map(list)
    block = st.builds(lambda base, seed, m: {"base": base, "seed": seed, "mut": m},
                      st.sampled_from(["zero", "ones", "rand", "rand", "snap", "snap", "snap", "enum-max"]),
                      st.integers(0, 10**6), st.lists(mut, max_size=12))
    rem = st.lists(st.tuples(st.one_of(st.integers(0, 7), st.integers(0, 255)),
                             st.one_of(st.integers(-3, 3), st.integers(-32768, 32767))).map(list), max_size=8)
    wc = st.one_of(st.none(), st.integers(0, 6), st.integers(0, 255))
    return st.builds(lambda c, b, w, r, k: {"combo": c, "block": b, "wc": w, "rem": r, "kind": k},
                     st.integers(0, n - 1), block, wc, rem, st.sampled_from(["async", "sync"]))


def enumerated(tier):
    combos = packs.combos()
    nb = BUDGET[tier]["bases"]
    bases = ["zero", "ones", "enum-max", "rand"] + ["rand", "enum-max", "snap"] * 8

    def fn(i):
        ci, bi = divmod(i, nb)
        return {"combo": ci, "block": {"base": bases[bi], "seed": bi * 7919 + ci, "mut": []},
                "wc": [None, 5, 0, 255, 4, 6, 17][(ci + bi) % 7], "rem": [[(ci + bi) % 9, (ci * 37 + bi) % 400 - 200], [0, 0], [200, -5]],
                "kind": "async" if (ci + bi) % 2 == 0 else "sync"}

    return len(combos) * nb, fn


def coverage_extra(tier):
    return {"exhaustive": True, "exhaustive_dimension": EXHAUSTIVE_NOTE, "combinations": len(packs.combos())}


# ------------------------------------------------------------------ reflection


def _props(obj):
    out = []
    for name, attr in inspect.getmembers(type(obj), lambda a: isinstance(a, property)):
        if not name.startswith("_"):
            out.append(name)
    return out


def _touch(res, where, fn):
    """evaluate one read-only member; an exception is a violation (bucketed by site)"""
    try:
        return True, fn()
    except Exception as exc:  # noqa
        is_lib, site = classify_exception(exc)
        if not is_lib:
            raise
        res.fail(f"C11|read|{where}|{site}", f"{where} raised {type(exc).__name__}: {exc}")
        return False, None


def _exercise_device(res, label, dev, depth=0):
    cls = type(dev).__name__
    for name in _props(dev):
        if name == "facade":
            continue
        ok, val = _touch(res, f"{cls}.{name}", lambda n=name: getattr(dev, n))
        if ok and depth == 0 and hasattr(val, "unique_id") and hasattr(val, "key") and val is not dev:
            _exercise_device(res, f"{label}.{name}", val, depth + 1)
    _touch(res, f"{cls}.__str__", lambda: str(dev))
    _touch(res, f"{cls}.__repr__", lambda: repr(dev))
    if hasattr(dev, "state_sensor") and callable(dev.state_sensor):
        ok, ss = _touch(res, f"{cls}.state_sensor()", dev.state_sensor)
        if ok and ss is not None and depth == 0:
            _exercise_device(res, f"{label}.state_sensor", ss, depth + 1)
    if hasattr(dev, "format_temperature"):
        _touch(res, f"{cls}.format_temperature", lambda: dev.format_temperature(20.5))


def _exercise_facade(res, fac, kind):
    cls = type(fac).__name__
    seen = []
    for name in _props(fac):
        if name in ("spa",):
            continue
        ok, val = _touch(res, f"{cls}.{name}", lambda n=name: getattr(fac, n))
        if not ok:
            continue
        vals = val if isinstance(val, (list, tuple)) else [val]
        for v in vals:
            if v is not None and hasattr(v, "unique_id") and hasattr(v, "key") and not any(v is s for s in seen):
                seen.append(v)
    ok, devs = _touch(res, f"{cls}.all_automation_devices", lambda: fac.all_automation_devices)
    if ok:
        for d in devs:
            if d is None:
                res.fail(f"C11|none-in-device-list|{cls}", "all_automation_devices contains None (device lookup and the change-notification wiring iterate it)")
                break
            if not any(d is s for s in seen):
                seen.append(d)
    for d in seen:
        _exercise_device(res, d.key if hasattr(d, "key") else "?", d)
    ok, keys = _touch(res, f"{cls}.devices", lambda: fac.devices)
    if ok:
        for k in list(keys) + ["no-such-key"]:
            ok2, d = _touch(res, f"{cls}.get_device", lambda k=k: fac.get_device(k.encode('utf-8').decode('utf-8') if isinstance(k, str) else k))
            if ok2 and k != "no-such-key" and d is None:
                res.fail(f"C11|lookup|{cls}", f"get_device({k!r}) returned None for a key listed by devices")
    rm = getattr(fac, "reminders_manager", None)  # public on the async facade only
    if rm is not None:
        from geckolib.driver import GeckoReminderType

        for t in GeckoReminderType:
            _touch(res, "GeckoReminders.get_reminder", lambda t=t: rm.get_reminder(t))
        ok, lst = _touch(res, "GeckoReminders.reminders", lambda: rm.reminders)
        if ok and lst:
            for r in lst:
                if hasattr(r, "description"):
                    for name in ("type", "description", "days", "monitor"):
                        _touch(res, f"Reminder.{name}", lambda n=name, r=r: getattr(r, n))
                    _touch(res, "Reminder.__str__", lambda r=r: str(r))
    _touch(res, f"{cls}.__repr__", lambda: repr(fac))


def _check_accessors(res, spa, pair, block):
    """every item reads without raising; enums beyond their labels read 'Unknown' (reference decoder)"""
    unit = None
    if "TempUnits" in pair.items:
        unit = pair.items["TempUnits"].decode(block)
    n_unknown = 0
    for tag, acc in spa.accessors.items():
        it = pair.items[tag]
        if it.pos + it.width > 1024:
            try:
                acc.value
            except Exception:  # noqa
                res.fail(f"C11|item-outside-block|{pair.log_name if tag in pair.log_inst.accessors else pair.cfg_name}|{tag}",
                         f"{tag} at byte {it.pos} lies outside the 1024-byte block and cannot be read")
            continue
        try:
            v = acc.value
        except Exception as exc:  # noqa
            is_lib, site = classify_exception(exc)
            if not is_lib:
                raise
            res.fail(f"C11|item-read|{it.kind}|{site}", f"{pair.plat} {tag}.value raised {type(exc).__name__}: {exc}")
            continue
        if it.kind == "Enum":
            exp = it.decode(block)
            if exp == "Unknown":
                n_unknown += 1
            if v != exp:
                res.fail(f"C11|enum-value|{'unknown' if exp == 'Unknown' else 'label'}",
                         f"{pair.plat} {tag}: raw {it.raw(block)} with {len(it.labels)} labels reads {v!r}, expected {exp!r}")
        elif it.kind == "Temp":
            if unit is not None and abs(float(v) - float(it.decode(block, unit))) > 1e-9:
                res.fail("C11|temp-value", f"{tag} reads {v}, expected {float(it.decode(block, unit))}")
        elif v != it.decode(block):
            res.fail(f"C11|item-value|{it.kind}", f"{pair.plat} {tag} reads {v!r}, expected {it.decode(block)!r}")
    return n_unknown


def _rmreq(records):
    return b"RMREQ" + b"".join(_struct.pack("<BhB", t & 255, d, 1) for t, d in records)


def _decode_reminders(records):
    from geckolib.driver import GeckoRemindersProtocolHandler

    h = GeckoRemindersProtocolHandler()
    h.handle(_rmreq(records), ("10.0.0.50", 10022))
    return h


def _decode_watercare(mode):
    from geckolib.driver import GeckoWatercareProtocolHandler

    h = GeckoWatercareProtocolHandler()
    h.handle(b"WCGET" + bytes([mode & 255]), ("10.0.0.50", 10022))
    return h


def run_case(case) -> Result:
    res = Result()
    combos = packs.combos()
    try:
        plat, cv, lv = combos[int(case["combo"]) % len(combos)]
    except (KeyError, TypeError, ValueError):
        raise InvalidCase(case)
    pair = packs.pair(plat, cv, lv)
    block = make_block(case.get("block", {}), pair)
    kind = case.get("kind", "async")
    wc = case.get("wc")
    rem = [(int(t), int(d)) for t, d in case.get("rem", [])]
    for t, d in rem:
        if not (0 <= t <= 255 and -32768 <= d <= 32767):
            raise InvalidCase(case)
    info = {"unknown": 0, "built": False}

    def build_failed(exc, what):
        is_lib, site = classify_exception(exc)
        if not is_lib:
            raise exc
        res.fail(f"C11|construct|{kind}|{site}", f"{what} for {plat} cfg {cv} log {lv} raised {type(exc).__name__}: {exc}")

    if kind == "async":
        from geckolib import GeckoAsyncFacade

        async def main():
            tm = facades.FakeTaskMan()
            try:
                spa = facades.make_async_spa(plat, cv, lv, block, tm)
                info["unknown"] = _check_accessors(res, spa, pair, block)
                try:
                    fac = GeckoAsyncFacade(spa, tm)
                except Exception as exc:  # noqa
                    build_failed(exc, "GeckoAsyncFacade()")
                    return
                info["built"] = True
                for t in tm._tasks:
                    t.cancel()
                _exercise_facade(res, fac, kind)
                # what a spa can report: through the real decoders, then into the facade as the update task does
                if wc is not None:
                    ok, h = _touch(res, "watercare-decode", lambda: _decode_watercare(wc))
                    if ok:
                        _touch(res, "GeckoWaterCare.change_watercare_mode", lambda: fac.water_care.change_watercare_mode(h.mode))
                ok, h = _touch(res, "reminders-decode", lambda: _decode_reminders(rem))
                if ok:
                    _touch(res, "GeckoReminders.change_reminders", lambda: fac.reminders_manager.change_reminders(h.reminders))
                _exercise_facade(res, fac, kind)
            finally:
                for t in tm._tasks:
                    t.cancel()
                await asyncio.sleep(0)

        loop = asyncio.new_event_loop()
        try:
            loop.run_until_complete(main())
        finally:
            loop.close()
            vworld.reset_globals()
    elif kind == "sync":
        from geckolib import GeckoFacade

        eng = stepped.Engine()
        with eng.patched():
            spa = facades.make_sync_spa(plat, cv, lv, block)
            info["unknown"] = _check_accessors(res, spa, pair, block)
            fac = GeckoFacade(spa)
            try:
                spa.on_connected(spa)
                info["built"] = True
            except Exception as exc:  # noqa
                build_failed(exc, "GeckoFacade._on_connected()")
            if info["built"]:
                _exercise_facade(res, fac, kind)
                if wc is not None:
                    ok, h = _touch(res, "watercare-decode", lambda: _decode_watercare(wc))
                    if ok:
                        _touch(res, "GeckoWaterCare._on_watercare", lambda: fac.water_care._on_watercare(h, None))
                ok, h = _touch(res, "reminders-decode", lambda: _decode_reminders(rem))
                if ok:
                    _touch(res, "GeckoReminders._on_reminders", lambda: fac._reminders._on_reminders(h, None))
                    _touch(res, "GeckoFacade.reminders", lambda: fac.reminders)
                _exercise_facade(res, fac, kind)
    else:
        raise InvalidCase(case)

    snap_as_is = case.get("block", {}).get("base") == "snap" and not case.get("block", {}).get("mut")
    res.nontrivial = not snap_as_is
    res.key = [plat, cv, lv, packs_digest(block), wc, rem, kind]
    res.label(f"kind-{kind}", f"base-{case.get('block', {}).get('base', 'zero')}")
    if info["unknown"]:
        res.label("has-enum-beyond-labels")
    if info["built"]:
        res.label("facade-built")
    if wc is not None and wc > 4:
        res.label("watercare-out-of-range")
    return res


def packs_digest(block):
    import hashlib

    return hashlib.blake2b(block, digest_size=8).hexdigest()
