"""C16  Sequence numbers: requests cycle 1..191, commands 192..255, never 0.

Oracles: explicit successor model of the two cycles; multiset/lock oracle for real threads;
reference parse of the sequence byte of queued datagrams (threaded client) and of datagrams
on the virtual wire (async client, via the E3 world).
"""
import struct
import threading
import time

from hypothesis import strategies as st

from ..runner import InvalidCase, Result

ID = "C16"
LEVEL = "exploration"
RULE = (
    "enumerated: every (n_protocol_calls 0..200, n_command_calls 0..70, order) prefix on both "
    "implementations from a fresh object (covers every reachable counter state and both wraps; "
    "exhaustive for the state space); generated: random call sequences (<=700 ops), real-thread "
    "runs with a GIL-yielding counter shim, and wire checks: every datagram the threaded client queues for set-value / key-press / "
    "watercare / refresh / STATQ, and every datagram a really connected async client puts on the virtual wire for key-press / "
    "set-value / GETWC / SETWC / REQRM / STATU / CURCH / STATQ after generated counter pre-advances (incl. just before both wraps). "
    "Non-trivial = the sequence crosses a wrap (191->1 or 255->192) or >=2 threads overlap or a "
    "pack command is on the wire; distinct by canonical case."
)
ASSUMPTIONS = [
    "OS-thread pre-emption is not enumerated; the shim forces a yield at every counter access",
    "async wire check uses the in-process simulator as peer on the virtual-time loop",
]
BUDGET = {
    "quick": {"workers": 16, "examples": 4800},
    "thorough": {"workers": 16, "examples": 40000},
}
EXHAUSTIVE_NOTE = "counter state space of both implementations"


def coverage_extra(tier):
    return {"exhaustive": True, "exhaustive_of": EXHAUSTIVE_NOTE}


# ---------------------------------------------------------------- model


class Model:
    def __init__(self):
        self.p = 0
        self.c = 191
        self.wrapped = False

    def next(self, command):
        if command:
            if self.c == 255:
                self.c = 192
                self.wrapped = True
            else:
                self.c += 1
            return self.c
        if self.p == 191:
            self.p = 1
            self.wrapped = True
        else:
            self.p += 1
        return self.p


def _make(impl):
    if impl == "async":
        from geckolib.driver.async_udp_protocol import GeckoAsyncUdpProtocol

        return GeckoAsyncUdpProtocol(None, None)
    if impl == "thread":
        from geckolib.driver.udp_socket import GeckoUdpSocket

        return GeckoUdpSocket()
    if impl == "spa":
        return _make_spa()
    raise InvalidCase(impl)


def _make_spa():
    from geckolib.spa import GeckoSpa
    from geckolib.spa_descriptor import GeckoSpaDescriptor

    d = GeckoSpaDescriptor(b"IOSclient", b"SPA01:02:03:04:05:06", "Spa", ("10.1.2.3", 10022))
    return GeckoSpa(d)


ORDERS = ("pc", "cp", "alt")


def _ops_for(np_, nc, order):
    if order == "pc":
        return [0] * np_ + [1] * nc
    if order == "cp":
        return [1] * nc + [0] * np_
    ops = []
    a, b = np_, nc
    while a or b:
        if a:
            ops.append(0)
            a -= 1
        if b:
            ops.append(1)
            b -= 1
    return ops


def _check_ops(res, impl, ops, tag):
    obj = _make(impl)
    m = Model()
    for i, op in enumerate(ops):
        got = obj.get_and_increment_sequence_counter(bool(op))
        exp = m.next(bool(op))
        if got != exp:
            res.fail(
                f"C16|{tag}|{impl}|{'command' if op else 'protocol'}",
                f"call #{i} kind={'command' if op else 'protocol'} returned {got!r}, "
                f"cycle successor is {exp}",
            )
            return m
        if got == 0 or not (1 <= got <= 255):
            res.fail(f"C16|{tag}|{impl}|range", f"value {got}")
            return m
    # one more of each kind from the reached state
    for op in (0, 1):
        got = obj.get_and_increment_sequence_counter(bool(op))
        exp = m.next(bool(op))
        if got != exp:
            res.fail(
                f"C16|{tag}|{impl}|{'command' if op else 'protocol'}",
                f"after {len(ops)} ops kind={'command' if op else 'protocol'} returned {got!r}, "
                f"expected {exp}",
            )
    return m


# ---------------------------------------------------------------- enumerated part

_NP, _NC = 201, 71
_IMPLS = ("async", "thread")


def enumerated(tier):
    total = _NP * _NC * len(ORDERS) * len(_IMPLS)

    def fn(i):
        impl = _IMPLS[i % len(_IMPLS)]
        i //= len(_IMPLS)
        order = ORDERS[i % len(ORDERS)]
        i //= len(ORDERS)
        nc = i % _NC
        np_ = i // _NC
        return {"k": "enum", "impl": impl, "np": np_, "nc": nc, "order": order}

    return total, fn


# ---------------------------------------------------------------- generated part


def strategy(tier):
    seqs = st.builds(
        lambda impl, ops: {"k": "seq", "impl": impl, "ops": ops},
        st.sampled_from(["async", "thread", "spa"]),
        st.one_of(
            st.lists(st.integers(0, 1), max_size=700),
            # biased: long runs of one kind so that wraps are crossed
            st.lists(
                st.tuples(st.integers(0, 1), st.integers(1, 260)), min_size=1, max_size=6
            ).map(lambda runs: [k for k, n in runs for _ in range(n)]),
        ),
    )
    threads = st.builds(
        lambda n, per, mix, pre: {"k": "threads", "n": n, "per": per, "mix": mix, "pre": pre},
        st.integers(2, 6),
        st.integers(5, 60),
        st.lists(st.integers(0, 1), min_size=1, max_size=8),
        st.integers(0, 260),
    )
    wire = st.builds(
        lambda ops, pre: {"k": "wire_sync", "ops": ops, "pre": pre},
        st.lists(
            st.one_of(
                st.tuples(st.just("set"), st.integers(0, 1023), st.integers(1, 2), st.integers(0, 255)),
                st.tuples(st.just("press"), st.integers(0, 23)),
                st.tuples(st.just("wc"), st.integers(0, 4)),
                st.tuples(st.just("refresh")),
                st.tuples(st.just("wc"), st.integers(0, 4), st.just("retry")),
                st.tuples(st.just("refresh"), st.just("retry")),
                st.tuples(st.just("statp"), st.integers(0, 1000), st.integers(0, 65535)),
                # something unpleasant happens on the receive side of the live connection (the numbering must not notice)
                st.tuples(st.just("rx"), st.sampled_from(["refused", "reset", "unreachable", "timeout", "junk", "empty"])),
            ).map(list),
            min_size=1,
            max_size=12,
        ),
        st.one_of(st.tuples(st.integers(0, 200), st.integers(0, 70)), st.tuples(st.integers(186, 191), st.integers(0, 70))).map(list),
    )
    wire_async = st.builds(
        lambda ops, pre, lose: dict({"k": "wire_async", "ops": ops, "pre": pre}, **({"lose": sorted(set(lose))} if lose else {})),
        st.lists(
            st.one_of(
                st.tuples(st.just("set"), st.integers(0, 1022), st.integers(0, 1), st.integers(0, 255)),
                st.tuples(st.just("press"), st.integers(0, 23)),
                st.tuples(st.just("getwc")), st.tuples(st.just("setwc"), st.integers(0, 4)), st.tuples(st.just("rem")),
                st.tuples(st.just("refresh")), st.tuples(st.just("channel")),
                st.tuples(st.just("statp"), st.integers(0, 1000), st.integers(0, 255)),
                st.tuples(st.just("reconnect")),
            ).map(list),
            min_size=1,
            max_size=10,
        ),
        st.one_of(st.tuples(st.integers(0, 200), st.integers(0, 70)), st.tuples(st.integers(170, 190), st.integers(55, 64))).map(list),
        # indices of ops whose first reply is lost: the request is built again (a fresh number) after timeout + pause
        st.one_of(st.just([]), st.just([]), st.lists(st.integers(0, 9), min_size=1, max_size=3)),
    )
    return st.one_of(seqs, seqs, threads, wire, wire_async)


# ---------------------------------------------------------------- real threads


def _run_threads(res, case):
    from geckolib.driver.udp_socket import GeckoUdpSocket

    violations = []

    class Shim(GeckoUdpSocket):
        """Counter attributes become properties that yield the GIL on every access, so an
        unprotected read-modify-write is interleaved with near certainty."""

        _armed = False

        def _yield(self):
            if self._armed:
                lock = getattr(self, "_lock", None)
                if lock is not None and hasattr(lock, "locked") and not lock.locked():
                    violations.append("counter accessed without the socket lock held")
                time.sleep(0)

        @property
        def _sequence_counter_protocol(self):
            self._yield()
            return self.__dict__["_scp"]

        @_sequence_counter_protocol.setter
        def _sequence_counter_protocol(self, v):
            self._yield()
            self.__dict__["_scp"] = v

        @property
        def _sequence_counter_command(self):
            self._yield()
            return self.__dict__["_scc"]

        @_sequence_counter_command.setter
        def _sequence_counter_command(self, v):
            self._yield()
            self.__dict__["_scc"] = v

    sock = Shim()
    m = Model()
    for _ in range(case["pre"]):
        sock.get_and_increment_sequence_counter(False)
        m.next(False)
    sock._armed = True
    n, per, mix = case["n"], case["per"], case["mix"]
    got = [[] for _ in range(n)]
    start = threading.Barrier(n)

    def body(ix):
        start.wait()
        for j in range(per):
            kind = bool(mix[(ix + j) % len(mix)])
            got[ix].append((kind, sock.get_and_increment_sequence_counter(kind)))

    ts = [threading.Thread(target=body, args=(i,), daemon=True) for i in range(n)]
    for t in ts:
        t.start()
    for t in ts:
        t.join(60)
        if t.is_alive():
            res.fail("C16|threads|deadlock", "thread did not finish")
            return
    sock._armed = False
    for kind in (False, True):
        values = sorted(v for g in got for k, v in g if k == kind)
        expect = sorted(m.next(kind) for _ in range(len(values)))
        if values != expect:
            res.fail(
                f"C16|threads|multiset|{'command' if kind else 'protocol'}",
                f"{n} threads x {per}: handed out {values[:20]}... expected cycle prefix {expect[:20]}...",
            )
        # per thread: strictly successive in its own view is not required, but no value twice
        # within fewer than a full cycle
    if violations:
        res.fail("C16|threads|lock-not-held", violations[0])
    res.nontrivial = True
    res.label("threads")


# ---------------------------------------------------------------- threaded client wire


def _seq_of_content(content: bytes):
    """(verb, seq) of an in.touch2 message body, per the wire description."""
    verb = content[:5]
    if verb in (b"APING",):
        return verb, None
    if len(content) < 6:
        return verb, None
    return verb, content[5]


def _unframe(data: bytes):
    a = data.index(b"<DATAS>") + 7
    b = data.rindex(b"</DATAS>")
    return data[a:b]


def _run_wire_sync(res, case):
    from geckolib.driver.protocol.statusblock import GeckoPartialStatusBlockProtocolHandler

    spa = _make_spa()
    spa.pack_type = 10
    spa.config_version, spa.log_version = 53, 53

    class _Log:
        begin, end = 256, 400

    spa.new_log_class = _Log()
    spa._is_connected = True
    m = Model()
    for _ in range(case["pre"][0]):
        spa.get_and_increment_sequence_counter(False)
        m.next(False)
    for _ in range(case["pre"][1]):
        spa.get_and_increment_sequence_counter(True)
        m.next(True)
    # a minimal facade stand-in for watercare: uses the spa exactly like GeckoWaterCare does
    from geckolib.automation.watercare import GeckoWaterCare

    class _F:
        unique_id = "u"
        name = "n"

    _F._spa = spa
    wc = GeckoWaterCare(_F)
    n_cmd = 0
    for op in case["ops"]:
        before = len(spa._send_handlers)
        if op[0] == "set":
            spa._on_set_value(op[1], op[2], op[3])
            kind = True
        elif op[0] == "press":
            spa.press(op[1])
            kind = True
        elif op[0] == "wc":
            wc.set_mode(op[1])
            kind = False
        elif op[0] == "refresh":
            spa.refresh()
            kind = False
        elif op[0] == "rx":
            import socket as _socket

            class _Rx:
                def recvfrom(self, n, _w=op[1]):
                    if _w == "refused":
                        raise ConnectionRefusedError(111, "Connection refused")     # ICMP port unreachable on a UDP socket
                    if _w == "reset":
                        raise ConnectionResetError(104, "Connection reset by peer")
                    if _w == "unreachable":
                        raise OSError(101, "Network is unreachable")
                    if _w == "timeout":
                        raise _socket.timeout()
                    return (b"" if _w == "empty" else b"\x00\xffjunk"), ("10.1.2.3", 10022)
            saved = spa._socket
            spa._socket = _Rx()
            try:
                spa._process_received_data()
            finally:
                spa._socket = saved
            if len(spa._send_handlers) != before:
                res.fail("C16|wire_sync|rx|count", f"a receive-side event ({op[1]}) queued {len(spa._send_handlers) - before} datagrams")
            continue
        elif op[0] == "statp":
            body = b"STATP\x01" + struct.pack(">H", op[1]) + struct.pack(">H", op[2])
            h = [x for x in spa._receive_handlers if isinstance(x, GeckoPartialStatusBlockProtocolHandler)][0]
            h.handle(body, spa.sendparms)
            kind = False
        else:
            raise InvalidCase(op)
        new = spa._send_handlers[before:]
        if len(new) != 1:
            res.fail(f"C16|wire_sync|{op[0]}|count", f"{len(new)} datagrams queued for {op}")
            continue
        content = _unframe(new[0][0].send_bytes)
        verb, seq = _seq_of_content(content)
        lo, hi = (192, 255) if kind else (1, 191)
        if kind:
            n_cmd += 1
            if verb != b"SPACK":
                res.fail(f"C16|wire_sync|{op[0]}|verb", f"{verb!r}")
        if seq is None or not (lo <= seq <= hi):
            res.fail(
                f"C16|wire_sync|{op[0]}|range",
                f"{verb!r} carries sequence {seq}, expected {lo}..{hi} "
                f"({'pack command' if kind else 'protocol request'})",
            )
            # keep the model in step with whatever counter was really used
            other = Model()
            other.p, other.c = m.p, m.c
            if seq == other.next(not kind):
                m.next(not kind)
            continue
        exp = m.next(kind)
        if seq != exp:
            res.fail(f"C16|wire_sync|{op[0]}|successor", f"{verb!r} seq {seq}, expected {exp}")
        elif len(op) > 1 and op[-1] == "retry" and getattr(new[0][0], "_retry_count", 0) > 0 and op[0] in ("wc", "refresh"):
            # the request goes unanswered for one timeout: the blocking client transmits the very same datagram again - same number,
            # neither counter moves
            h = new[0][0]
            h.last_destination = spa.sendparms[:2]
            n_before = len(spa._send_handlers)
            h.retry(spa)
            again = spa._send_handlers[n_before:]
            if len(again) != 1:
                res.fail(f"C16|wire_sync|{op[0]}|retransmission-count", f"{len(again)} datagrams queued by one retry")
            else:
                v2, s2 = _seq_of_content(_unframe(again[0][0].send_bytes))
                if (v2, s2) != (verb, seq):
                    res.fail(f"C16|wire_sync|{op[0]}|retransmission", f"{verb!r} #{seq} was retransmitted as {v2!r} #{s2}")
                probe = Model()
                probe.p, probe.c = m.p, m.c
                # the next numbers of both cycles are still the successors of what was handed out before the retry
                nxt_p, nxt_c = spa.get_and_increment_sequence_counter(False), spa.get_and_increment_sequence_counter(True)
                if (nxt_p, nxt_c) != (m.next(False), m.next(True)):
                    res.fail(f"C16|wire_sync|{op[0]}|retransmission-moved-counters", f"after retransmitting {verb!r} #{seq} the counters hand out {nxt_p} / {nxt_c}")
    res.nontrivial = n_cmd > 0
    res.label("wire_sync")


# ---------------------------------------------------------------- run_case


def run_case(case) -> Result:
    res = Result()
    k = case.get("k")
    if k == "enum":
        if case["order"] not in ORDERS:
            raise InvalidCase(case)
        ops = _ops_for(case["np"], case["nc"], case["order"])
        m = _check_ops(res, case["impl"], ops, "enum")
        res.nontrivial = m.wrapped or case["np"] >= 190 or case["nc"] >= 63
        res.label("enum-" + case["impl"])
    elif k == "seq":
        m = _check_ops(res, case["impl"], case["ops"], "seq")
        res.nontrivial = m.wrapped
        res.label("seq-" + case["impl"], "seq-wrap" if m.wrapped else "seq-nowrap")
    elif k == "threads":
        _run_threads(res, case)
    elif k == "wire_sync":
        _run_wire_sync(res, case)
    elif k == "wire_async":
        from . import c16_async

        c16_async.run(res, case)
    else:
        raise InvalidCase(case)
    return res
