"""C15  Discovery lists each spa once, honours the filter, and terminates on time.

A real GeckoAsyncLocator.discover() runs in the virtual-time world against 0..6 in-process
simulators with generated identifiers/names, reply multiplicity, latency and loss, with and
without address / identifier filters, under timer jitter and client-handler suspensions.
"""
import asyncio

from hypothesis import strategies as st

from .. import clients, refcodec as R, vworld
from ..runner import HarnessError, InvalidCase, Result

ID = "C15"
LEVEL = "exploration"
J_MAX = 0.05
RULE = (
    "generated: 0..6 spas (distinct MAC-like identifiers; latin-1 names incl. '|', non-ASCII, empty), per spa "
    "reply multiplicity 0..4 and hello latency 0..12 s; filter in {none, address, identifier (present/absent), "
    "both}; jitter tape (J<=50 ms); suspension of the client's discovered-spa handler; plus the threaded "
    "locator's de-duplication fed with generated reply sequences. Non-trivial = >=2 spas with duplicated "
    "replies, or a filtered run with a non-matching spa answering; distinct by canonical case."
)
ASSUMPTIONS = [
    "a spa counts as responding when one of its replies could have been consumed (one datagram per polling interval, in arrival order) at least 2 polling intervals (+jitter, +handler suspension) before discover() returned",
    "timing tolerance: 2 x (0.1 s + J) + the time the client's handler was suspended",
    "'helper tasks gone' = done after the loop has been yielded to at the same virtual instant",
]
BUDGET = {
    "quick": {"workers": 16, "examples": 9600},
    "thorough": {"workers": 16, "examples": 24000},
}

NAMES = ["My Spa", "A|B", "|", "Spa|", "||x", "Café Spä", "", "Ünïcödé|x", "1", "IOS", "x" * 40]


def strategy(tier):
    spa = st.tuples(st.integers(0, 250), st.one_of(st.sampled_from(NAMES), st.text(alphabet=st.characters(min_codepoint=32, max_codepoint=255), max_size=12)),
                    st.integers(0, 4), st.sampled_from([0.0, 0.0, 0.2, 1.0, 3.7, 3.95, 4.05, 6.0, 9.8, 12.0])).map(list)
    flt = st.sampled_from(["none", "none", "address", "identifier", "identifier-absent", "both"])
    jitter = st.one_of(st.just([]), st.lists(st.sampled_from([0.0, 0.0, 0.01, 0.03, 0.05]), min_size=1, max_size=7))
    asyncc = st.builds(lambda spas, f, t, j, s, again, blank: dict({"k": "async", "spas": spas, "filter": f, "target": t, "jitter": j, "suspend": s},
                                                                   **({"again": again} if again else {}), **({"blank": blank} if blank else {}),
                                                                   **({"alias": True} if f in ("address", "both") and (t + len(spas)) % 3 == 0 else {})),
                       st.lists(spa, max_size=6, unique_by=lambda s: s[0]), flt, st.integers(0, 5), jitter,
                       st.lists(st.sampled_from([0.0, 0.0, 0.3, 0.6, 1.5, 5.0, 12.0]), max_size=4), st.sampled_from([0, 0, 0, 1, 2, 3]),
                       st.sampled_from([None, None, None, "identifier", "address", "both"]))
    find = st.one_of(st.none(), st.tuples(st.just("id"), st.integers(0, 6), st.sampled_from(["str", "bytes"])).map(list), st.just(["ip"]))
    sync = st.builds(lambda seq, f: dict({"k": "sync", "seq": seq}, **({"find": f} if f else {})),
                     st.lists(st.tuples(st.integers(0, 5), st.sampled_from(NAMES)).map(list), min_size=1, max_size=10), find)
    srun = st.builds(lambda spas, f, t: {"k": "syncrun", "spas": spas, "filter": f, "target": t},
                     st.lists(st.tuples(st.integers(0, 150), st.sampled_from(NAMES), st.sampled_from([0.0, 0.2, 1.0, 3.7, 4.05, 6.0, 9.5, 12.0])).map(list),
                              max_size=4, unique_by=lambda s_: s_[0] % 200),
                     st.sampled_from(["none", "id", "ip"]), st.integers(0, 3))
    return st.integers(0, 9).flatmap(lambda i: sync if i == 0 else (srun if i == 1 else asyncc))


def _ident(n):
    """spa identifiers: the usual SPAxx:.. form; some end in a byte that str.strip() would eat (space, NBSP, NEL) - an
    identifier is an opaque byte string to the protocol"""
    base = f"SPA{n:02x}:02:03:04:05:06".encode()
    return base + {3: b"\xa0", 5: b" ", 6: b"\x85"}.get(n % 7, b"")


def _port(n):
    # most modules answer from the well-known port; one behind a port-forward does not
    return 10022 if n % 5 != 2 else 40000 + n


def _run_async(res, case):
    from geckolib import AsyncTasks, GeckoAsyncLocator, GeckoConfig, GeckoSpaEvent

    jitter = [min(float(j), J_MAX) for j in case.get("jitter", [])]
    J = max(jitter) if jitter else 0.0
    W = vworld.World(jitter=jitter or None)
    peers = []
    for n, name, mult, lat in case["spas"]:
        try:
            name.encode("latin-1")
        except UnicodeEncodeError:
            raise InvalidCase(name)
        sim = vworld.make_simulator(identifier=_ident(n), name=name)
        p = W.add_peer(sim, (f"10.0.0.{50 + len(peers)}", _port(n)))
        p.reply_multiplicity = mult
        p.hello_latency = float(lat)
        peers.append(p)
    flt = case["filter"]
    target = peers[case["target"] % len(peers)] if peers else None
    addr = ident = None
    if flt in ("address", "both"):
        addr = target.addr[0] if target else "10.0.0.99"
        if target is not None and case.get("alias"):
            # the configured address is only a destination for sendto(): a host name or a forwarded address that the replies' source
            # address does not spell the same way
            addr = f"spa-{case['target'] % len(peers)}.home.arpa"
            target.aliases = {addr}
    if flt in ("identifier", "both"):
        ident = target.sim.vp_identifier.decode("latin-1") if target else "SPAzz:zz"
    if flt == "identifier-absent":
        ident = "SPAee:ee:ee:ee:ee:ee"
    # a field that is not used as a filter may arrive as an empty string instead of None (an empty configuration entry)
    blank = case.get("blank")
    if blank not in (None, "identifier", "address", "both"):
        raise InvalidCase(blank)
    ctor_addr = "" if addr is None and blank in ("address", "both") else addr
    ctor_ident = "" if ident is None and blank in ("identifier", "both") else ident
    suspend = list(case.get("suspend", []))
    out = {}

    async def main(W):
        tm = AsyncTasks()
        await tm.__aenter__()
        events = []
        susp_total = [0.0]

        async def handler(event, **kw):
            events.append((W.clock.t, event, kw))
            if event == GeckoSpaEvent.LOCATING_DISCOVERED_SPA and suspend:
                d = suspend.pop(0)
                if d > 0:
                    susp_total[0] += d
                    await asyncio.sleep(d)

        try:
            loc = GeckoAsyncLocator(tm, handler, spa_address=ctor_addr, spa_identifier=ctor_ident)
            t0 = W.clock.t
            n_tr = len(W.transports)
            await loc.discover()
            t1 = W.clock.t
            spas = list(loc.spas or [])
            trs = W.transports[n_tr:]
            # yield to the loop at the same virtual instant
            for _ in range(3):
                await asyncio.sleep(0)
            loc_tasks = [t for t in tm._tasks if t.get_name().startswith("LOC:")]
            out.update(t0=t0, t1=t1, spas=spas, trs=trs, alive=[t.get_name() for t in loc_tasks if not t.done()],
                       susp=susp_total[0], events=events, age_listed=loc.spas)
            await W.sleep(1.0)
            out["late_list"] = list(loc.spas or [])
            out["alive_later"] = [t.get_name() for t in loc_tasks if not t.done()]
            # further discoveries on the same task manager (what the manager's sequence pump does, twice per connection):
            # each must again return a duplicate-free list with its endpoint closed and its helper tasks finished
            for r in range(int(case.get("again", 0))):
                loc2 = GeckoAsyncLocator(tm, handler, spa_address=ctor_addr, spa_identifier=ctor_ident)
                n2 = len(W.transports)
                await loc2.discover()
                for _ in range(3):
                    await asyncio.sleep(0)
                alive = sorted(t.get_name() for t in tm._tasks if t.get_name().startswith("LOC:") and not t.done())
                ids = [d.identifier for d in (loc2.spas or [])]
                if alive:
                    out.setdefault("again", []).append(("helper-task-survives", f"discovery #{r + 2} on the same task manager returned but {alive} keep running"))
                if any(not t.closed for t in W.transports[n2:]):
                    out.setdefault("again", []).append(("endpoint-open", f"discovery #{r + 2} on the same task manager returned with its endpoint open"))
                if len(set(ids)) != len(ids):
                    out.setdefault("again", []).append(("duplicate", f"discovery #{r + 2} lists {ids}"))
                known = {_ident(n) for n, *_ in case["spas"]}
                if any(i not in known for i in ids) or (ident is not None and any(i != ident.encode("latin-1") for i in ids)):
                    out.setdefault("again", []).append(("foreign", f"discovery #{r + 2} lists {ids}, filter {ident!r}"))
                if alive:
                    break
        finally:
            # bounded: a helper task that swallows its cancellation must not hang the harness
            g = asyncio.ensure_future(tm.gather())
            await asyncio.wait([g], timeout=30.0)
            if not g.done():
                out["unkillable"] = sorted(t.get_name() for t in tm._tasks if not t.done())
                g.cancel()
                W.expect_leftover = True

    W.run(main)
    if out.get("unkillable") or out.get("alive_later"):
        names = out.get("unkillable") or out.get("alive_later")
        res.fail(f"C15|helper-task-survives|{names[0]}", f"discovery returned but {names} keep running (1 s later / not even cancellable)")
        if "t0" not in out:
            return
    for what, msg in out.get("again", []):
        res.fail(f"C15|repeat|{what}", msg)
    t0, t1 = out["t0"], out["t1"]
    dur = t1 - t0
    # two polling intervals (hello consumer, discovery loop) + the time the client's handler was suspended; every one of
    # those sleeps is a timer, so each may be late by the jitter bound
    tol = 2 * (vworld.POLL + J) + out["susp"] + J * len(case.get("suspend", [])) + 0.01
    init_to, disc_to = 4.0, 10.0
    # deliveries to the locator endpoint: (time, identifier)
    # The hello consumer takes at most one datagram per polling interval, so a reply becomes
    # visible to the locator when the consumer reaches it: c_i = max(d_i, c_(i-1)) + (poll + J)
    # is an upper bound of the consumption time of the i-th delivered datagram.
    first_reply = {}
    raw_first = {}
    c_prev = 0.0
    for t_, ep, data in W.delivered:
        c_prev = max(t_, c_prev) + (vworld.POLL + J)
        if data.startswith(b"<HELLO>") and b"|" in data:
            sid = data[7:-8].split(b"|", 1)[0]
            raw_first.setdefault(sid, t_)
            first_reply.setdefault(sid, c_prev - (vworld.POLL + J) if c_prev - (vworld.POLL + J) > t_ else t_)
    by_id = {p.sim.vp_identifier: p for p in peers}
    wanted = None if ident is None else ident.encode("latin-1")
    listed = [d.identifier for d in out["spas"]]
    # -- each at most once, only responders, only the requested identifier
    for sid in set(listed):
        if listed.count(sid) != 1:
            res.fail("C15|listed-twice", f"{sid!r} listed {listed.count(sid)} times")
        if sid not in raw_first or raw_first[sid] > t1:
            res.fail("C15|listed-without-reply", f"{sid!r} listed but no reply reached the endpoint")
        if wanted is not None and sid != wanted:
            res.fail("C15|filter-ignored", f"{sid!r} listed although identifier {wanted!r} was requested")
    # -- every spa that answered early enough is listed (subject to the filter)
    for sid, tr_ in first_reply.items():
        if wanted is not None and sid != wanted:
            continue
        if tr_ <= t1 - tol and sid not in listed:
            res.fail("C15|responder-not-listed", f"{sid!r} answered {t1 - tr_:.2f}s before discover() returned but is not listed (listed: {listed})")
    # -- a spa announced to the client during the run is in the list when the run returns
    for t_, e, kw in out["events"]:
        if e == GeckoSpaEvent.LOCATING_DISCOVERED_SPA and t_ <= t1:
            d = kw.get("spa_descriptor")
            if d is not None and d.identifier not in listed:
                res.fail("C15|announced-not-listed", f"{d.identifier!r} was announced at {t_ - t0:.2f}s but is not in the list returned at {dur:.2f}s")
    # -- descriptor intact
    for d in out["spas"]:
        p = by_id.get(d.identifier)
        if p is None:
            res.fail("C15|unknown-identifier", f"{d.identifier!r}")
            continue
        if d.name != p.sim.vp_name:
            res.fail("C15|name-mangled|" + ("separator" if "|" in p.sim.vp_name else "plain"), f"{d.identifier!r}: name {d.name!r}, spa calls itself {p.sim.vp_name!r}")
        if (d.ipaddress, d.port) != p.addr or d.destination != p.addr:
            res.fail("C15|address-mangled", f"{d.identifier!r}: {(d.ipaddress, d.port)} vs {p.addr}")
        if d.identifier_as_string != d.identifier.decode("latin-1"):
            res.fail("C15|identifier-string", f"{d.identifier_as_string!r}")
    # -- termination time
    if dur > disc_to + tol:
        res.fail("C15|late-return|timeout", f"discover() took {dur:.2f}s, discovery timeout is {disc_to}")
    filtered = addr is not None or ident is not None
    eligible = {sid: t_ - t0 for sid, t_ in first_reply.items() if wanted is None or sid == wanted}
    if filtered and eligible:
        tr_ = min(eligible.values())
        if tr_ < disc_to and dur > tr_ + tol:
            res.fail("C15|late-return|requested-spa-answered", f"requested spa answered at {tr_:.2f}s, discover() returned at {dur:.2f}s")
    if not filtered and eligible:
        tr_ = min(eligible.values())
        if tr_ < disc_to:
            if dur > max(init_to, tr_) + tol:
                res.fail("C15|late-return|unfiltered", f"first reply at {tr_:.2f}s, discover() returned at {dur:.2f}s")
            if dur < init_to - 1e-6:
                res.fail("C15|early-return|unfiltered", f"discover() returned after {dur:.2f}s, before the initial wait of {init_to}s")
    if not any(v < disc_to - tol for v in eligible.values()) and dur < disc_to - 1e-6 and not eligible:
        res.fail("C15|early-return|nothing-found", f"nothing eligible answered but discover() returned after {dur:.2f}s")
    # -- resources
    if len(out["trs"]) != 1:
        res.fail("C15|endpoints", f"{len(out['trs'])} endpoints opened")
    for tr in out["trs"]:
        if tr.close_calls < 1:
            res.fail("C15|endpoint-not-closed", f"{tr!r} not closed when discover() returned")
    if out["alive"]:
        res.fail("C15|helper-tasks-alive", f"{out['alive']} still running after discover() returned")
    if [d.identifier for d in out["late_list"]] != listed:
        res.fail("C15|list-changed-after-return", f"{listed} -> {[d.identifier for d in out['late_list']]}")
    multi = sum(1 for _, _, m, _ in case["spas"] if m >= 2)
    res.nontrivial = multi >= 2 or (wanted is not None and any(s != wanted for s in first_reply))
    res.label("filter-" + flt, f"spas-{min(len(peers), 3)}{'+' if len(peers) > 3 else ''}")


def _run_sync(res, case):
    from geckolib.driver import GeckoHelloProtocolHandler
    from geckolib.locator import GeckoLocator

    find = case.get("find")
    kw, want_id = {}, None
    if find and find[0] == "id":
        want_id = _ident(int(find[1]))
        kw["spa_to_find"] = want_id if find[2] == "bytes" else want_id.decode("latin-1")
    elif find and find[0] == "ip":
        kw["static_ip"] = "10.0.0.50"
    loc = GeckoLocator("uuid", **kw)
    found = []
    loc._on_found = found.append
    h = GeckoHelloProtocolHandler.broadcast(on_handled=loc._on_discovered)
    expect = {}
    answered = set()
    for n, name in case["seq"]:
        try:
            nb = name.encode("latin-1")
        except UnicodeEncodeError:
            raise InvalidCase(name)
        sid = _ident(n)
        sender = (f"10.0.0.{50 + n}", 10022)
        dg = R.hello_reply(sid, nb)
        if sid not in expect:
            expect[sid] = (name, sender)
        h.handle(dg, sender)
        h.handled(sender)
        answered.add(sid)
        # the blocking discovery loop returns as soon as this flag is set: it must be set exactly when the requested spa
        # (or, with a static address, any spa) has answered - another spa's reply must not end the search
        want_flag = (want_id in answered) if want_id is not None else (bool(answered) if find else False)
        if bool(loc._has_found_spa) != want_flag:
            res.fail(f"C15|sync-locator-found-flag|{'early' if loc._has_found_spa else 'missed'}",
                     f"threaded locator looking for {kw}: after replies from {sorted(answered)} the found flag is {loc._has_found_spa}")
            break
    got = [(d.identifier, d.name, (d.ipaddress, d.port)) for d in loc.spas]
    want = [(sid, nm, snd) for sid, (nm, snd) in expect.items()]
    if got != want:
        res.fail("C15|sync-locator-list", f"threaded locator lists {got}, expected {want}")
    if len(found) != len(want):
        res.fail("C15|sync-locator-on-found", f"on_found called {len(found)} times for {len(want)} spas")
    res.nontrivial = len(case["seq"]) > len(expect) and len(expect) >= 2
    res.label("sync-locator")


def _run_syncrun(res, case):
    """the blocking locator's own discovery loop (start_discovery(should_wait=True)) in virtual time: the socket engine is stepped from
    inside its wait(), the hello retry "thread" is played by the harness once per second, generated spas answer with generated latencies"""
    import geckolib.locator as locmod
    import geckolib.driver.udp_socket as us
    from geckolib import GeckoConfig
    from .. import stepped

    spas = [(int(n), str(name), float(lat)) for n, name, lat in case["spas"]]
    flt = case.get("filter", "none")
    if flt not in ("none", "id", "ip"):
        raise InvalidCase(case)
    target = spas[int(case.get("target", 0)) % len(spas)] if spas else None
    kw, want = {}, None
    if flt == "id":
        want = _ident(target[0]) if target else b"SPAzz:zz"
        kw["spa_to_find"] = want
    elif flt == "ip":
        kw["static_ip"] = f"10.0.0.{50 + (target[0] % 200)}" if target else "10.0.0.99"
    eng = stepped.Engine()
    first = {}
    state = {"next_hello": None}
    with eng.patched():
        def peer(data, client_addr):
            # every hello is answered by every spa it reaches (a unicast only by the addressed one), each with its own latency
            if b"<HELLO>" in data:
                dest = eng.sent[-1][2] if eng.sent else None
                for n, name, lat in spas:
                    ip = f"10.0.0.{50 + (n % 200)}"
                    if dest is not None and dest[0] not in ("<broadcast>", "255.255.255.255", ip):
                        continue
                    at = eng.vt.t + eng.LATENCY + lat
                    first.setdefault(_ident(n), at)
                    eng.deliver(R.hello_reply(_ident(n), name.encode("latin-1")), (ip, 10022), at=at)
            return []
        eng.peer = peer
        loc = locmod.GeckoLocator("uuid", **kw)
        real_cls = us.GeckoUdpSocket

        def factory():
            sock = real_cls()
            sock.open = lambda: None
            sock.enable_broadcast = lambda: None
            eng.attach(sock)

            def wait(timeout):
                t_end = eng.vt.t + float(timeout)
                while eng.vt.t < t_end - 1e-9:
                    if state["next_hello"] is None or eng.vt.t >= state["next_hello"]:
                        state["next_hello"] = eng.vt.t + 1.0
                        if loc.age < GeckoConfig.DISCOVERY_TIMEOUT_IN_SECONDS:      # what one turn of the retry thread does
                            sock.queue_send(locmod.GeckoHelloProtocolHandler.broadcast(),
                                            locmod.GeckoHelloProtocolHandler.broadcast_address(static_ip=loc._static_ip))
                    stepped.run_until(eng, lambda: True, max_iterations=1)
            sock.wait = wait
            sock.close = lambda: setattr(sock, "_vp_closed", True)
            return sock
        saved = locmod.GeckoUdpSocket
        locmod.GeckoUdpSocket = factory
        try:
            t0 = eng.vt.t
            loc.start_discovery(True)
            dur = eng.vt.t - t0
        finally:
            locmod.GeckoUdpSocket = saved
    init_to, disc_to = 4.0, 10.0
    tol = 0.1 + 2 * eng.timeout_step + 0.02      # one wait() of the loop + the engine iteration that takes the reply
    listed = [d.identifier for d in loc.spas]
    if len(set(listed)) != len(listed):
        res.fail("C15|blocking-run|duplicate", f"blocking discovery lists {listed}")
    answered = {sid: t_ - t0 for sid, t_ in first.items()}
    for sid, t_ in answered.items():
        if t_ < dur - tol and sid not in listed:
            res.fail("C15|blocking-run|responder-not-listed", f"{sid!r} answered at {t_:.2f}s, discovery ran {dur:.2f}s, not listed")
    if dur > disc_to + tol:
        res.fail("C15|blocking-run|late-return|timeout", f"blocking discovery took {dur:.2f}s")
    eligible = {sid: t_ for sid, t_ in answered.items() if (want is None or sid == want)}
    if flt != "none" and eligible:
        tr_ = min(eligible.values())
        if tr_ < disc_to and dur > tr_ + tol:
            res.fail("C15|blocking-run|late-return|requested-spa-answered", f"the requested spa answered at {tr_:.2f}s, the blocking discovery returned at {dur:.2f}s")
    if flt == "none" and eligible:
        tr_ = min(eligible.values())
        if tr_ < disc_to and dur > max(init_to, tr_) + tol:
            res.fail("C15|blocking-run|late-return|unfiltered", f"first reply at {tr_:.2f}s, blocking discovery returned at {dur:.2f}s")
        if dur < init_to - 1e-6:
            res.fail("C15|blocking-run|early-return|unfiltered", f"blocking discovery returned after {dur:.2f}s, before the initial wait")
    if not eligible and dur < disc_to - 1e-6:
        res.fail("C15|blocking-run|early-return|nothing-found", f"nothing eligible answered but the blocking discovery returned after {dur:.2f}s")
    if not getattr(loc._socket, "_vp_closed", False):
        res.fail("C15|blocking-run|socket-not-closed", "the blocking discovery returned without closing its socket")
    res.nontrivial = len(spas) >= 2
    res.label("blocking-discovery-loop", "blocking-filter-" + flt)


def run_case(case) -> Result:
    res = Result()
    if case.get("k") == "syncrun":
        _run_syncrun(res, case)
        return res
    if case.get("k") == "async":
        _run_async(res, case)
    elif case.get("k") == "sync":
        _run_sync(res, case)
    else:
        raise InvalidCase(case)
    return res
