"""C17  Active/idle configuration switching is complete and wakes every sleeper.

Histories of set_config_mode() calls and looping config_sleep() sleepers on the virtual clock
(with timer jitter), and a real GeckoAsyncFacade whose pump/blower/light state items are driven
through block updates.  Oracles: the three configuration classes themselves (every upper-case
member, collected by reflection), wake-time rules, and 'active iff some pump or blower is on'
by the reference decoder.
"""
import asyncio

from hypothesis import strategies as st

from .. import facades, packs, vworld
from ..runner import HarnessError, InvalidCase, Result

ID = "C17"
LEVEL = "exploration"
J_MAX = 0.05
RULE = (
    "generated (a) histories: 1..12 looping sleepers (start offset, 1..4 rounds of delays 0..300 s) and "
    "1..8 mode switches at generated instants (incl. instants equal to a sleeper start/expiry), jitter tape; "
    "(b) facade runs on a generated snapshot-backed configuration: sequences of state assignments to every "
    "pump/blower/light (all on/off combinations reachable) applied as block updates. Non-trivial = >=2 "
    "sleepers pending across a switch or a sleeper starting in the same instant as a switch (a), a "
    "combination where only a light is on or a pump goes off while another stays on (b); distinct by canonical case."
)
ASSUMPTIONS = [
    "a switch happens only after some config-aware sleep has started (set_config_mode asserts this; every real caller satisfies it)",
    "wake tolerance: the sleeper's own timer latency from the jitter tape (<= 50 ms) + 1 ms",
]
BUDGET = {
    "quick": {"workers": 16, "examples": 6400},
    "thorough": {"workers": 16, "examples": 80000},
}


def _tables():
    from geckolib import config as gc

    def members(cls):
        return {k: getattr(cls, k) for k in dir(cls) if k.isupper() and not callable(getattr(cls, k))}
    names = set(members(gc._GeckoConfig)) | set(members(gc._GeckoActiveConfig)) | set(members(gc._GeckoIdleConfig))
    return names, members(gc._GeckoActiveConfig), members(gc._GeckoIdleConfig)


def _check_table(res, active, where):
    from geckolib import config as gc

    names, act, idle = _tables()
    want = act if active else idle
    wrong = [(k, getattr(gc.GeckoConfig, k, None), want[k]) for k in sorted(names) if getattr(gc.GeckoConfig, k, None) != want[k]]
    if wrong:
        other = idle if active else act
        mixed = any(v == other[k] for k, v, _ in wrong)
        res.fail(f"C17|table-{'mixture' if mixed else 'wrong'}|{'active' if active else 'idle'}",
                 f"{where}: after switching to {'active' if active else 'idle'}: " + ", ".join(f"{k}={v} (expected {w})" for k, v, w in wrong[:5]))


def strategy(tier):
    delay = st.sampled_from([0.0, 0.05, 0.1, 1.0, 2.0, 5.0, 30.0, 60.0, 120.0, 300.0])
    t = st.sampled_from([0.0, 0.5, 1.0, 2.0, 2.5, 5.0, 7.0, 30.0, 31.0, 60.0, 61.0, 120.0])
    sleeper = st.tuples(t, st.lists(delay, min_size=1, max_size=4)).map(list)
    switch = st.tuples(t, st.booleans()).map(list)
    jitter = st.one_of(st.just([]), st.lists(st.sampled_from([0.0, 0.0, 0.01, 0.03, 0.05]), min_size=1, max_size=7))
    # other task managers of the same process (a second spa, a short-lived discovery) opening and closing while sleepers sleep
    other = st.lists(st.tuples(t, st.sampled_from([0.0, 0.5, 1.0, 3.0, 29.0, 31.0])).map(list), max_size=3)
    hist = st.builds(lambda sl, sw, j, o: dict({"k": "hist", "sleepers": sl, "switches": sw, "jitter": j}, **({"others": o} if o else {})),
                     st.lists(sleeper, min_size=1, max_size=12), st.lists(switch, min_size=1, max_size=8), jitter, st.one_of(st.just([]), other))
    # an element is one raw state per device, or "reconnect": the facade is discarded and a new one is built on the same spa state
    # (what every reset / recovery does) while the process-wide configuration stays as it is
    assign = st.lists(st.integers(0, 3), min_size=8, max_size=8)
    fac = st.builds(lambda si, seq, init: dict({"k": "facade", "snap": si, "seq": seq}, **({"init": init} if init else {}), **({"wire_all": True} if si % 2 else {})),
                    st.integers(0, 60), st.lists(st.one_of(assign, assign, assign, assign, st.just("reconnect"), assign.map(lambda a: ["reconnect", a]),
                                       st.just(["reconnect", [0] * 8])), min_size=1, max_size=10),
                    st.one_of(st.none(), assign))
    return st.one_of(hist, hist, fac)


def _run_hist(res, case):
    from geckolib import config as gc

    jitter = [min(float(j), J_MAX) for j in case.get("jitter", [])]
    J = max(jitter) if jitter else 0.0
    W = vworld.World(jitter=jitter or None)
    rounds = []  # dicts: ix, start, delay, wake
    switches = []  # (time, active)
    stats = {"nt": False}

    async def main(W):
        t0 = W.clock.t

        async def background():
            # the first config-aware sleeper (the library's tidy task plays this role)
            while True:
                await gc.config_sleep(1000.0)

        bg = asyncio.ensure_future(background())
        await asyncio.sleep(0)

        async def sleeper(ix, offset, delays):
            await W.sleep(offset)
            for d in delays:
                rec = {"ix": ix, "start": W.clock.t, "delay": d, "wake": None}
                rounds.append(rec)
                await gc.config_sleep(d)
                rec["wake"] = W.clock.t

        async def switcher(at, active):
            await W.sleep(at)
            pending = [r for r in rounds if r["wake"] is None]
            gc.set_config_mode(active)
            switches.append((W.clock.t, active, len(pending)))
            _check_table(res, active, f"switch at {at}")

        tasks = [asyncio.ensure_future(sleeper(i, float(o), [float(x) for x in ds])) for i, (o, ds) in enumerate(case["sleepers"])]
        # switches are started after the sleepers so that a switch at the same instant as a
        # sleeper start runs after it (the sleeper is pending); the reverse order is covered by
        # sleepers whose *expiry* coincides with a switch
        async def other_manager(at, dur):
            from geckolib import AsyncTasks
            await W.sleep(at)
            tm2 = AsyncTasks()
            async with tm2:      # its tidy task is a config-aware sleeper of its own
                tm2.add_task(gc.config_sleep(500.0), "Sleeper", "OTHER")
                await W.sleep(dur)

        otasks = [asyncio.ensure_future(other_manager(float(a), float(d))) for a, d in case.get("others", [])]
        stasks = [asyncio.ensure_future(switcher(float(a), bool(m))) for a, m in case["switches"]]
        await asyncio.gather(*stasks, *otasks)
        limit = W.clock.t + 1300
        while not all(t.done() for t in tasks) and W.clock.t < limit:
            await W.sleep(1.0)
        for t in tasks:
            if not t.done():
                res.fail("C17|sleeper-never-wakes", "a sleeper is still pending 1300 s after the last switch")
                t.cancel()
            elif t.cancelled() or t.exception() is not None:
                # nobody cancelled this sleeper: config_sleep itself raised into it
                why = "CancelledError" if t.cancelled() else repr(t.exception())
                res.fail("C17|sleeper-killed", f"a config-aware sleep ended with {why} instead of returning (another sleeper's timeout or a switch tore down the shared wake-up signal)")
        if bg.done():
            res.fail("C17|sleeper-killed", "the long-running background sleeper was ended by the library (nobody cancelled it)")
        bg.cancel()
        await asyncio.gather(bg, *tasks, return_exceptions=True)
        tol = J + 1e-3
        for r in rounds:
            if r["wake"] is None:
                continue
            later = [t_ for t_, _, _ in switches if t_ > r["start"] + 1e-9]
            first = min(later) if later else None
            expire = r["start"] + r["delay"]
            if first is not None and first < expire - 1e-9:
                if r["wake"] > first + tol:
                    res.fail("C17|not-woken-by-switch",
                             f"sleeper {r['ix']} (started {r['start'] - t0:.3f}, asked {r['delay']}s) was pending at the switch at "
                             f"{first - t0:.3f} but woke at {r['wake'] - t0:.3f}")
            if r["wake"] > expire + tol:
                res.fail("C17|overslept", f"sleeper {r['ix']} asked for {r['delay']}s but slept {r['wake'] - r['start']:.3f}s")
        if any(n >= 2 for _, _, n in switches):
            stats["nt"] = True
        for o, ds in case["sleepers"]:
            if any(abs(float(o) - float(a)) < 1e-9 for a, _ in case["switches"]):
                stats["nt"] = True

    W.run(main)
    res.nontrivial = stats["nt"]
    res.label("history")
    if case.get("others"):
        res.label("history-with-other-task-managers")


# ------------------------------------------------------------------ facade part

_snaps = None


def _snapshots():
    global _snaps
    if _snaps is None:
        out = []
        for path in packs.snapshot_files():
            try:
                for s in vworld.load_snapshot(path):
                    if s.packtype and len(s.bytes) == 1024:
                        out.append(s)
            except Exception:  # noqa
                pass
        _snaps = out
    return _snaps


def _state_tag(d):
    """which item holds a device's state: from the pinned device table (the facade's own idea of it is what is being checked)"""
    from .c12 import TABLE
    ent = TABLE.get(d.key)
    return ent[3] if ent is not None else d._state_sensor.accessor.tag


def _wire_all(pair, block):
    """outputs re-configured so that every device the pack knows (P1..P5, blower, waterfall, lights) is wired to some output"""
    from .c12 import WIRING, outputs_of
    done = set()
    for tag in outputs_of(pair):
        it = pair.items[tag]
        for li, lab in enumerate(it.labels or []):
            dev = WIRING.get(lab)
            if dev is not None and dev not in done:
                done.add(dev)
                pos, w, word = it.encode_raw(block, li)
                block = packs.apply_write(block, pos, w, word)
                break
    return block


def _run_facade(res, case):
    from geckolib import GeckoAsyncFacade
    from geckolib import config as gc

    snaps = _snapshots()
    snap = snaps[case["snap"] % len(snaps)]
    plat, cv, lv = snap.packtype.lower(), snap.config_version, snap.log_version
    pair = packs.pair(plat, cv, lv)
    W = vworld.World()
    stats = {"nt": False}

    def answering(spa_):
        """the spa answers pings and the facade's periodic queries at once (instance-level stand-ins for the network)"""
        async def wc():
            return 1

        async def rem():
            return []
        spa_._last_ping = W.clock.t
        spa_.async_get_watercare = wc
        spa_.async_get_reminders = rem

    def cfg_on_of(fac_, block_):
        out_ = []
        for d in fac_.pumps + fac_.blowers:
            it = pair.items[_state_tag(d)]
            v = it.decode(block_)
            out_.append((v is True) if it.kind == "Bool" else (v != "OFF"))
        return out_

    async def first_round(fac_, spa_, why):
        """the facade's periodic update selects the table as well: after its first round the configuration matches the devices"""
        for _ in range(6):
            await asyncio.sleep(0)
        on = cfg_on_of(fac_, spa_.struct.status_block)
        names, act, idle = _tables()
        cur = {k: getattr(gc.GeckoConfig, k, None) for k in names}
        if cur != (act if any(on) else idle):
            res.fail(f"C17|facade-update-selects-{'idle' if cur == idle else 'active' if cur == act else 'mixture'}",
                     f"{plat}/{cv}/{lv} {why}: pumps/blowers on={on} after the facade's first update round, but the "
                     f"{'IDLE' if cur == idle else 'ACTIVE' if cur == act else 'mixed'} table is installed")
        if any(on):
            stats["nt"] = True

    async def main(W):
        tm = facades.FakeTaskMan()
        block0 = snap.bytes
        if case.get("wire_all"):
            block0 = _wire_all(pair, block0)
        init = case.get("init")
        if init:
            # devices that are already running when the facade is built
            probe_tm = facades.FakeTaskMan()
            probe = GeckoAsyncFacade(facades.make_async_spa(plat, cv, lv, block0, probe_tm), probe_tm)
            for d, raw in zip(probe.pumps + probe.blowers + probe.lights, init):
                it = pair.items[_state_tag(d)]
                pos, w, word = it.encode_raw(block0, raw % it.capacity)
                block0 = packs.apply_write(block0, pos, w, word)
            await probe.disconnect()
            for t in probe_tm._tasks:
                t.cancel()
            await asyncio.gather(*probe_tm._tasks, return_exceptions=True)
        spa = facades.make_async_spa(plat, cv, lv, block0, tm)

        async def bg():
            while True:
                await gc.config_sleep(500.0)
        b = asyncio.ensure_future(bg())
        await asyncio.sleep(0)
        answering(spa)
        fac = GeckoAsyncFacade(spa, tm)
        try:
            devs = fac.pumps + fac.blowers + fac.lights
            if not devs:
                return
            await first_round(fac, spa, "new facade")
            def cfg_states(block):
                out_ = []
                for d in fac.pumps + fac.blowers:
                    it = pair.items[_state_tag(d)]
                    v = it.decode(block)
                    out_.append((v is True) if it.kind == "Bool" else (v != "OFF"))
                return out_

            # the facade (re-)selects the table whenever a pump or blower changes state (and on
            # its periodic update); the construction itself does not select, so the oracle
            # applies from the first state change on
            prev_cfg = cfg_states(spa.struct.status_block)
            for assign in case["seq"]:
                if assign == "reconnect" or (isinstance(assign, list) and assign and assign[0] == "reconnect"):
                    block = spa.struct.status_block
                    if isinstance(assign, list) and len(assign) > 1:
                        # the devices change state while nobody is connected (the gap between two connections)
                        for d, raw in zip(devs, assign[1]):
                            it = pair.items[_state_tag(d)]
                            pos, w, word = it.encode_raw(block, raw % it.capacity)
                            block = packs.apply_write(block, pos, w, word)
                    await fac.disconnect()
                    for t in tm._tasks:
                        t.cancel()
                    await asyncio.gather(*tm._tasks, return_exceptions=True)
                    tm = facades.FakeTaskMan()
                    spa = facades.make_async_spa(plat, cv, lv, block, tm)
                    answering(spa)
                    fac = GeckoAsyncFacade(spa, tm)
                    devs = fac.pumps + fac.blowers + fac.lights
                    stats["reconnects"] = stats.get("reconnects", 0) + 1
                    await first_round(fac, spa, "rebuilt facade")
                    prev_cfg = cfg_states(spa.struct.status_block)
                    continue
                # assign a raw state value to each device's state item
                block = spa.struct.status_block
                for d, raw in zip(devs, assign):
                    tag = _state_tag(d)
                    it = pair.items[tag]
                    pos, w, word = it.encode_raw(block, raw % it.capacity)
                    block = packs.apply_write(block, pos, w, word)
                # one update per changed byte range, like partial updates from a spa
                old = spa.struct.status_block
                diffs = [i for i in range(1024) if old[i] != block[i]]
                for i in diffs:
                    spa.struct.replace_status_block_segment(i, block[i:i + 1])
                await asyncio.sleep(0)
                if not diffs:
                    continue
                cfg_on = []
                light_only = False
                for d in fac.pumps + fac.blowers:
                    it = pair.items[_state_tag(d)]
                    v = it.decode(block)
                    cfg_on.append((v is True) if it.kind == "Bool" else (v != "OFF"))
                want_active = any(cfg_on)
                lights_on = []
                for d in fac.lights:
                    it = pair.items[_state_tag(d)]
                    v = it.decode(block)
                    lights_on.append((v is True) if it.kind == "Bool" else (v != "OFF"))
                if any(lights_on) and not want_active:
                    stats["nt"] = True
                if sum(cfg_on) >= 1 and prev_cfg is not None and sum(prev_cfg) > sum(cfg_on):
                    stats["nt"] = True
                # a change of a pump/blower state must have re-selected the table
                changed_cfg = prev_cfg != cfg_on
                prev_cfg = cfg_on
                if not changed_cfg:
                    continue
                names, act, idle = _tables()
                cur = {k: getattr(gc.GeckoConfig, k, None) for k in names}
                is_active = cur == act
                is_idle = cur == idle
                if not (is_active or is_idle):
                    res.fail("C17|table-mixture|facade", f"configuration is neither the active nor the idle table: {cur}")
                elif is_active != want_active:
                    res.fail(f"C17|facade-selects-{'active' if is_active else 'idle'}",
                             f"{plat}/{cv}/{lv}: pumps/blowers on={cfg_on} lights on={lights_on}: facade selected "
                             f"{'ACTIVE' if is_active else 'IDLE'}, expected {'ACTIVE' if want_active else 'IDLE'}")
        finally:
            await fac.disconnect()
            b.cancel()
            for t in tm._tasks:
                t.cancel()
            await asyncio.gather(b, *tm._tasks, return_exceptions=True)

    W.run(main)
    res.nontrivial = stats["nt"]
    res.label("facade")
    if stats.get("reconnects"):
        res.label("facade-rebuilt")


_FRESH = r"""
import asyncio, sys
import geckolib.config as gc          # as a client process does: the library's module state is whatever the import left

async def main(active, n):
    woke = []
    async def sleeper(i):
        await gc.config_sleep(600.0)
        woke.append(i)
    tasks = [asyncio.ensure_future(sleeper(i)) for i in range(n)]
    for _ in range(5):
        await asyncio.sleep(0)
    gc.set_config_mode(active)              # the very first switch of the process
    for _ in range(200):                     # loop iterations, not seconds
        await asyncio.sleep(0)
    table = gc._GeckoActiveConfig() if active else gc._GeckoIdleConfig()
    wrong = [m for m in dir(gc._GeckoConfig) if m.isupper() and getattr(gc.GeckoConfig, m) != getattr(type(table), m)]
    for t in tasks:
        t.cancel()
    await asyncio.gather(*tasks, return_exceptions=True)
    print("RESULT", len(woke), n, ",".join(wrong))

asyncio.run(main(sys.argv[1] == "1", int(sys.argv[2])))
"""


def _run_fresh(res, case):
    """the first switch in a fresh interpreter (nothing reset by a harness, asyncio.run's own loop): sleepers that went to sleep
    before it must wake within a few loop iterations, and the table must be the chosen one"""
    import subprocess
    import sys

    active, n = bool(case["active"]), 1 + int(case["n"]) % 5
    p = subprocess.run([sys.executable, "-c", _FRESH, "1" if active else "0", str(n)], capture_output=True, text=True, timeout=120)
    line = [ln for ln in p.stdout.splitlines() if ln.startswith("RESULT")]
    if p.returncode != 0 or not line:
        res.fail("C17|fresh-process|raises", f"first switch in a fresh process failed: rc={p.returncode} {p.stderr.strip().splitlines()[-1:] }")
        return
    _, woke, total, wrong = (line[0].split(" ") + [""])[:4]
    if int(woke) != int(total):
        res.fail("C17|fresh-process|not-woken-by-switch", f"{int(total) - int(woke)} of {total} sleepers that were asleep before the process's first switch were not woken by it")
    if wrong:
        res.fail("C17|fresh-process|table-wrong", f"after the first switch to {'active' if active else 'idle'}: {wrong} differ from the chosen table")
    res.nontrivial = True
    res.label("fresh-process-first-switch")


def enumerated(tier):
    cases = [{"k": "fresh", "active": a, "n": n} for a in (True, False) for n in (0, 2)]
    return len(cases), lambda i: cases[i]


def run_case(case) -> Result:
    res = Result()
    if case.get("k") == "fresh":
        _run_fresh(res, case)
        return res
    if case.get("k") == "hist":
        _run_hist(res, case)
    elif case.get("k") == "facade":
        _run_facade(res, case)
    else:
        raise InvalidCase(case)
    return res
