"""C12  Device inventory equals the spa's output wiring, with unique keys.

For a generated assignment of every output item of a cfg/log pair (any label index, the same
device on several outputs, NA, empty labels, raw values beyond the label list) written into a
pseudo-random block through the reference encoder, the async and the blocking facade are built
and their inventory is compared with a reference inventory computed from an explicit wiring map
(label -> device), the table's device order, the user-demand list and a pinned device table.
"""
import asyncio

from hypothesis import strategies as st

from .. import clients, facades, packs, stepped, vworld
from ..runner import InvalidCase, Result, classify_exception

ID = "C12"
LEVEL = "exploration"
RULE = (
    "generated: cfg x log combination (all constructible ones reachable) x pseudo-random block x one choice per output item "
    "(biased to device-bearing labels; label index incl. NA/empty, duplicates of one device on several outputs, raw beyond the label list), facade kind "
    "async/blocking; enumerated: for every combination every single-output assignment of every label (others NA). "
    "Non-trivial = some device wired on >=2 outputs, or wired without a user demand / outside the device table; distinct by "
    "(combination, decoded wiring, kind)."
)
ASSUMPTIONS = [
    "wiring map (label -> device) written down from the shipped label vocabulary: P1H,P1L->P1 .. P4H,P4L->P4, P5->P5, BLO->BL, Waterfall->Waterfall, LI->LI; every other label wires no user device",
    "device table pinned in the harness: P1..P5 pump (keypad 1..5, state item Pn), BL blower (6, BL), Waterfall pump (23, Waterfall), LI light (16, UdLi)",
    "the demand item of a pump is read from its _user_demand record (no public accessor exists); C13 checks it black-box through the emitted write",
]
BUDGET = {
    "quick": {"workers": 16, "examples": 6400},
    "thorough": {"workers": 16, "examples": 160000},
}

WIRING = {"P1H": "P1", "P1L": "P1", "P2H": "P2", "P2L": "P2", "P3H": "P3", "P3L": "P3", "P4H": "P4", "P4L": "P4",
          "P5": "P5", "BLO": "BL", "Waterfall": "Waterfall", "LI": "LI"}
TABLE = {
    "P1": ("GeckoPump", "Pump 1", 1, "P1"), "P2": ("GeckoPump", "Pump 2", 2, "P2"), "P3": ("GeckoPump", "Pump 3", 3, "P3"),
    "P4": ("GeckoPump", "Pump 4", 4, "P4"), "P5": ("GeckoPump", "Pump 5", 5, "P5"), "BL": ("GeckoBlower", "Blower", 6, "BL"),
    "Waterfall": ("GeckoPump", "Waterfall", 23, "Waterfall"), "LI": ("GeckoLight", "Lights", 16, "UdLi"),
}
SENSORS = [("Smart Winter Mode:Risk", "SwmRisk")]
BINARY_SENSORS = [("Circulating Pump", "CP"), ("Pump Run", "PumpRun"), ("Ozone", "O3"), ("Smart Winter Mode:Active", "SwmActive"),
                  ("Filter Status:Clean", "Clean"), ("Filter Status:Purge", "Purge")]

_OK = None


def constructible():
    """combinations for which a facade can be built at all (C11 decides that; here they are the domain)"""
    global _OK
    if _OK is None:
        out = []
        for plat, cv, lv in packs.combos():
            p = packs.pair(plat, cv, lv)
            if any(it.pos + it.width > 1024 for it in p.items.values()):
                continue
            out.append((plat, cv, lv))
        _OK = out
    return _OK


def outputs_of(pair):
    return list(pair.cfg_inst.output_keys)


def make_block(case, pair):
    b = bytearray(clients.prng("c12", case.get("seed", 0), n=1024))
    outs = outputs_of(pair)
    ch = list(case.get("choices", []))
    default = case.get("default", "na")
    for j, tag in enumerate(outs):
        it = pair.items[tag]
        if j < len(ch) and ch[j] is not None:
            c = int(ch[j])
            devlabels = [i for i, lab in enumerate(it.labels or []) if lab in WIRING]
            if c >= 1000 and devlabels:
                raw = devlabels[(c - 1000) % len(devlabels)]   # a label that wires a user device
            else:
                raw = c % it.capacity
        elif default == "na" and "NA" in (it.labels or []):
            raw = it.labels.index("NA")
        elif default == "na":
            raw = 0
        else:
            continue
        pos, w, word = it.encode_raw(bytes(b), raw)
        b[pos:pos + w] = int(word).to_bytes(w, "big")
    return bytes(b)


def strategy(tier):
    n = len(constructible())
    choice = st.one_of(st.integers(1000, 1015), st.integers(1000, 1015), st.integers(1000, 1003), st.integers(0, 22), st.integers(0, 255), st.none())
    return st.builds(lambda c, s, ch, d, k: {"combo": c, "seed": s, "choices": ch, "default": d, "kind": k},
                     st.integers(0, n - 1), st.integers(0, 10**6), st.lists(choice, min_size=0, max_size=16),
                     st.sampled_from(["na", "na", "rand"]), st.sampled_from(["async", "sync"]))


_ENUM = None


def _single_assignments():
    global _ENUM
    if _ENUM is None:
        cases = []
        seen = set()
        for ci, (plat, cv, lv) in enumerate(constructible()):
            pair = packs.pair(plat, cv, lv)
            key = (pair.cfg_name, pair.log_name)
            outs = outputs_of(pair)
            for j, tag in enumerate(outs):
                labels = pair.items[tag].labels or []
                for li in range(len(labels) + 1):
                    # one wiring per (cfg module, output, label) and log module is enough for the blocking facade; async gets all
                    k = (pair.cfg_name, j, li, pair.log_name)
                    if k in seen:
                        continue
                    seen.add(k)
                    cases.append((ci, j, li))
        _ENUM = cases
    return _ENUM


_FULL = None


def _full_wirings():
    """per combination: every device the pack knows wired at once (each to the first output that offers a label for it), and the
    same wiring with the outputs visited in reverse - pairings / orderings between devices only show with several of them wired"""
    global _FULL
    if _FULL is None:
        out = []
        for ci, (plat, cv, lv) in enumerate(constructible()):
            pair = packs.pair(plat, cv, lv)
            outs = outputs_of(pair)
            for order in (list(range(len(outs))), list(range(len(outs)))[::-1]):
                choices = [None] * len(outs)
                done = set()
                for j in order:
                    labels = pair.items[outs[j]].labels or []
                    for li, lab in enumerate(labels):
                        dev = WIRING.get(lab)
                        if dev is not None and dev not in done:
                            done.add(dev)
                            choices[j] = li
                            break
                if len(done) >= 2:
                    out.append((ci, choices))
        _FULL = out
    return _FULL


def enumerated(tier):
    cases = _single_assignments()
    stride = 1 if tier == "thorough" else 23
    n_single = (len(cases) + stride - 1) // stride
    kinds = 2 if tier == "thorough" else 1      # thorough: both facades for every single assignment; quick: alternating
    full = _full_wirings()

    def fn(i):
        if i < n_single * kinds:
            ci, j, li = cases[((i // kinds) * stride) % len(cases)]
            kind = ("async", "sync")[i % 2]
            return {"combo": ci, "seed": ci, "choices": [None] * j + [li], "default": "na", "kind": kind}
        i -= n_single * kinds
        ci, choices = full[i // 2]
        return {"combo": ci, "seed": ci + 1, "choices": list(choices), "default": "na", "kind": ("async", "sync")[i % 2]}

    return n_single * kinds + 2 * len(full), fn


def coverage_extra(tier):
    return {"single_output_assignments_total": len(_single_assignments()), "exhaustive": tier == "thorough",
            "exhaustive_dimension": "every (combination, output, label) single-output assignment x both facades (thorough); every combination with all its devices wired at once, outputs visited forwards and backwards, both facades (both tiers)",
            "all_devices_wirings": len(_full_wirings())}


def reference_inventory(pair, block):
    wired_on = {}
    for tag in outputs_of(pair):
        label = pair.items[tag].decode(block)
        dev = WIRING.get(label)
        if dev is not None:
            wired_on.setdefault(dev, []).append(tag)
    uds = list(pair.log_inst.user_demand_keys)
    devices = []
    no_demand = []
    for dev in pair.log_inst.all_device_keys:
        if dev not in wired_on:
            continue
        ud = [u for u in uds if u.upper() == ("Ud" + dev).upper()]
        if not ud or dev not in TABLE:
            no_demand.append(dev)
            continue
        devices.append((dev, ud[0]))
    return devices, wired_on, no_demand


def _compare(res, fac, pair, block, kind):
    devices, wired_on, no_demand = reference_inventory(pair, block)
    exp_p = [d for d in devices if TABLE[d[0]][0] == "GeckoPump"]
    exp_b = [d for d in devices if TABLE[d[0]][0] == "GeckoBlower"]
    exp_l = [d for d in devices if TABLE[d[0]][0] == "GeckoLight"]
    for name, exp, got in (("pumps", exp_p, fac.pumps), ("blowers", exp_b, fac.blowers), ("lights", exp_l, fac.lights)):
        got_keys = [d.key for d in got]
        exp_keys = [d for d, _ in exp]
        if got_keys != exp_keys:
            if sorted(got_keys) == sorted(exp_keys):
                why = "order"
            elif len(set(got_keys)) != len(got_keys):
                why = "duplicate"
            elif set(exp_keys) - set(got_keys):
                why = "missing"
            else:
                why = "extra"
            res.fail(f"C12|{name}|{why}|{kind}", f"{pair.plat} cfg {pair.cv} log {pair.lv}: facade.{name} keys {got_keys}, wiring {dict(wired_on)} "
                     f"with user demands {list(pair.log_inst.user_demand_keys)[:9]} implies {exp_keys}")
            continue
        for (dev, ud), obj in zip(exp, got):
            cls, dname, keypad, state_tag = TABLE[dev]
            if type(obj).__name__ != cls:
                res.fail(f"C12|class|{dev}", f"{dev} is a {type(obj).__name__}, expected {cls}")
            if obj.name != dname:
                res.fail(f"C12|name|{dev}", f"{dev} is named {obj.name!r}, expected {dname!r}")
            if getattr(obj, "_keypad_button", keypad) != keypad:
                res.fail(f"C12|keypad|{dev}", f"{dev} uses keypad {obj._keypad_button}, expected {keypad}")
            ss = getattr(obj, "_state_sensor", None)
            if ss is not None and ss.accessor.tag != state_tag:
                res.fail(f"C12|state-item|{dev}", f"{dev} reads state from {ss.accessor.tag}, expected {state_tag}")
            if cls == "GeckoPump":
                if list(obj.modes) != list(pair.items[ud].labels):
                    res.fail(f"C12|modes|{dev}", f"{dev}.modes {obj.modes} != labels of {ud} {pair.items[ud].labels}")
                rec = getattr(obj, "_user_demand", None)
                if rec is not None and rec.get("demand") != ud:
                    res.fail(f"C12|demand-item|{dev}", f"{dev} writes its demand to {rec.get('demand')}, expected {ud}")
                if obj.mode != pair.items[state_tag].decode(block):
                    res.fail(f"C12|mode|{dev}", f"{dev}.mode {obj.mode!r} != {pair.items[state_tag].decode(block)!r}")
    if [d.key for d in fac.all_user_devices] != [d for d, _ in exp_p + exp_b + exp_l]:
        res.fail(f"C12|all-user-devices|{kind}", f"all_user_devices {[d.key for d in fac.all_user_devices]} != pumps+blowers+lights of the wiring")
    # sensors whose items exist
    exp_s = [(n, t) for n, t in SENSORS if t in pair.items]
    exp_bs = [(n, t) for n, t in BINARY_SENSORS if t in pair.items]
    for name, exp, got in (("sensors", exp_s, fac.sensors), ("binary_sensors", exp_bs, fac.binary_sensors)):
        g = [(s.name, s.accessor.tag) for s in got]
        if g != exp:
            res.fail(f"C12|{name}|{kind}", f"facade.{name} = {g}, items present imply {exp}")
    # keys / ids / lookup
    devs = list(fac.all_automation_devices)
    keys = [d.key for d in devs]
    if len(set(keys)) != len(keys):
        dup = sorted({k for k in keys if keys.count(k) > 1})
        res.fail(f"C12|duplicate-key|{dup[0]}", f"automation keys not distinct: {dup}")
    ids = [d.unique_id for d in devs]
    if len(set(ids)) != len(ids):
        res.fail("C12|duplicate-unique-id", f"unique ids not distinct: {sorted({i for i in ids if ids.count(i) > 1})}")
    # ... and unique beyond this facade: an id is the facade's own unique id (the spa's identifier) plus the key, never the spa's
    # name, which the user may change and which two spas may share
    for d in devs:
        if d.unique_id != f"{fac.unique_id}-{d.key}":
            res.fail("C12|unique-id-not-from-facade-id", f"device {d.key}: unique id {d.unique_id!r}, the facade's unique id is {fac.unique_id!r} (spa name {fac.name!r})")
            break
    if list(fac.devices) != keys:
        res.fail("C12|devices-list", f"facade.devices {fac.devices} != keys of all_automation_devices {keys}")
    for d in devs:
        if fac.get_device(d.key) is not d and keys.count(d.key) == 1:
            res.fail(f"C12|lookup|{d.key}", f"get_device({d.key!r}) did not return that device")
        # ... also when the key arrives as an equal string that is not the very same object (from a config file, a shell, json)
        fresh = d.key.encode("utf-8").decode("utf-8") if isinstance(d.key, str) else d.key
        if fac.get_device(fresh) is not d and keys.count(d.key) == 1:
            res.fail("C12|lookup|equal-key", f"get_device of a key equal to {d.key!r} (a different string object) did not return that device")
    if fac.get_device("no-such-key") is not None:
        res.fail("C12|lookup|unknown-key", "get_device of an unknown key returned a device")
    return devices, wired_on, no_demand


def run_case(case) -> Result:
    res = Result()
    ok = constructible()
    try:
        plat, cv, lv = ok[int(case["combo"]) % len(ok)]
    except (KeyError, TypeError, ValueError):
        raise InvalidCase(case)
    pair = packs.pair(plat, cv, lv)
    block = make_block(case, pair)
    kind = case.get("kind", "async")
    out = {}

    def guarded(fn):
        try:
            out["r"] = fn()
        except Exception as exc:  # noqa
            is_lib, site = classify_exception(exc)
            if not is_lib:
                raise
            res.fail(f"C12|exception|{kind}|{site}", f"{plat} cfg {cv} log {lv}: {type(exc).__name__}: {exc}")

    if kind == "async":
        from geckolib import GeckoAsyncFacade

        async def main():
            tm = facades.FakeTaskMan()
            try:
                spa = facades.make_async_spa(plat, cv, lv, block, tm)
                guarded(lambda: _compare(res, GeckoAsyncFacade(spa, tm), pair, block, kind))
            finally:
                for t in tm._tasks:
                    t.cancel()
                await asyncio.sleep(0)

        loop = asyncio.new_event_loop()
        try:
            loop.run_until_complete(main())
        finally:
            loop.close()
            vworld.reset_globals()
    elif kind == "sync":
        from geckolib import GeckoFacade

        eng = stepped.Engine()
        with eng.patched():
            spa = facades.make_sync_spa(plat, cv, lv, block)
            fac = GeckoFacade(spa)

            def go():
                # a client thread polling `facade.is_connected` may run at any instant of the inventory scan (the spa reports itself
                # connected before the facade has scanned its outputs): "connected" must imply that the inventory can be read
                probes = []
                orig_scan = fac.scan_outputs

                def scan_with_reader():
                    if fac.is_connected:
                        try:
                            probes.append(("early", list(fac.pumps) + list(fac.blowers) + list(fac.lights)))
                        except Exception as exc:  # noqa
                            probes.append(("raises", repr(exc)))
                    return orig_scan()
                fac.scan_outputs = scan_with_reader
                spa.on_connected(spa)
                fac.scan_outputs = orig_scan
                if probes:
                    res.fail("C12|connected-before-inventory|sync", f"facade.is_connected was already True when the output scan began: a reader at that instant gets {probes[0]}")
                if not fac.is_connected:
                    res.fail("C12|never-connected|sync", "facade.is_connected is False after the inventory was built on a connected spa")
                return _compare(res, fac, pair, block, kind)
            guarded(go)
    else:
        raise InvalidCase(case)

    devices, wired_on, no_demand = out.get("r") or reference_inventory(pair, block)
    multi = any(len(v) >= 2 for v in wired_on.values())
    res.nontrivial = bool(multi or no_demand)
    res.key = [plat, cv, lv, sorted((k, v) for k, v in wired_on.items()), kind]
    res.label(f"kind-{kind}", f"devices-{min(len(devices), 4)}")
    if multi:
        res.label("device-on-several-outputs")
    if no_demand:
        res.label("wired-without-user-demand")
    if any(pair.items[t].decode(block) == "Unknown" for t in outputs_of(pair)):
        res.label("output-beyond-labels")
    return res
