"""C06  Request engine: bounded retries, one request in flight, every caller completes.

A connected async client with its own ping/refresh loops plus generated concurrent callers
(plain protocol requests with a counting factory, key press, set value, watercare get/set,
reminders) under reply loss/delay tapes and timer jitter.  A recording lock (swapped into the
protocol from the harness) and the time-stamped wire log are judged against the retry/lock/
completion rules; gated calls must emit nothing.
"""
import asyncio

from hypothesis import strategies as st

from .. import clients, recording, refcodec as R, vworld
from ..runner import HarnessError, InvalidCase, Result

ID = "C06"
LEVEL = "exploration"
J_MAX = 0.05
RULE = (
    "generated: 1..8 concurrent callers (arrival time 0..20 s, kind in {get(CURCH, retry 1..10), press, "
    "set value, get watercare, set watercare, reminders}) next to the library's ping and refresh loops; "
    "spa->client fault tape (drop/delay per datagram) and client->spa drops; jitter tape (J<=50 ms); gate "
    "state in {open, stale ping, not connected} (closed gates under the idle and the active timing table); optionally a stream of 10..60 unclaimed datagrams 50..200 ms apart. Non-trivial = >=2 callers whose lock requests overlap and "
    ">=1 lost or late reply, or a gated case; distinct by canonical case."
)
ASSUMPTIONS = [
    "schedules = jitter-tape family (timer latencies <= 50 ms), not arbitrary pre-emption",
    "completion bound per call = retry x (timeout + pause) + retry x 2 x (poll + J) measured from lock acquisition",
    "a reply counts as delivered for a call when a datagram of its response verb reaches the client inside one of the call's attempt windows, opened 6 x (poll + J) early for datagrams still waiting in the receive queue (sequence numbers are not echoed by the spa, so replies cannot be matched exactly)",
]
BUDGET = {
    "quick": {"workers": 16, "examples": 2400},
    "thorough": {"workers": 16, "examples": 24000},
}

RESPONSE = {b"CURCH": b"CHCUR", b"GETWC": b"WCGET", b"SETWC": b"WCSET", b"REQRM": b"RMREQ", b"SPACK": b"PACKS",
            b"APING": b"APING", b"AVERS": b"SVERS", b"STATU": b"STATV"}
KIND_VERB = {"get": b"CURCH", "press": b"SPACK", "set": b"SPACK", "getwc": b"GETWC", "setwc": b"SETWC", "rem": b"REQRM", "refresh": b"STATU"}
GATED = {"press", "set", "getwc", "setwc", "rem"}


FOREIGN_SPA = b"SPAfe:fe:fe:fe:fe:fe"


def strategy(tier):
    # [arrival, kind, retry count, cancel-after]: cancel-after > 0 = the caller's task is cancelled that long after its call
    # (e.g. a client's own time limit) - whatever it held must be released for the others
    caller = st.tuples(st.sampled_from([0.0, 0.0, 0.05, 0.3, 1.0, 3.0, 7.5, 20.0]),
                       st.sampled_from(["get", "get", "press", "set", "getwc", "setwc", "rem", "refresh"]),
                       st.integers(1, 10),
                       st.sampled_from([0, 0, 0, 0, 0, 0.4, 2.5, 5.0])).map(list)
    act = st.one_of(st.sampled_from(["d", "d", "d", "x", "x"]), st.sampled_from([0.5, 2.0, 3.5, 4.5, 6.5]).map(lambda d: ["l", d]))
    jitter = st.one_of(st.just([]), st.lists(st.sampled_from([0.0, 0.0, 0.01, 0.03, 0.05]), min_size=1, max_size=7))
    # a stream of datagrams nobody claims (start s, count, gap ms): keeps the receive queue non-empty while callers wait
    noise = st.one_of(st.none(), st.none(), st.tuples(st.sampled_from([0.0, 0.5, 2.0]), st.integers(10, 60), st.sampled_from([50, 100, 200])).map(list))
    # another in.touch2 module on the network that addresses datagrams to OUR client identifier (replies of every kind, ping answers)
    foreign = st.sampled_from([False, False, False, True])
    return st.builds(
        lambda cs, s2c, c2s, j, gate, nz, mode, hole, fg: dict({"callers": cs, "s2c": s2c, "c2s": c2s, "jitter": j, "gate": gate}, **({"noise": nz} if nz else {}),
                                                            **({"foreign": True} if fg and gate in ("open", "outage") else {}),
                                                            **({"damage": True} if (hole + len(cs)) % 5 == 0 and gate == "open" and mode != "active" and not nz else {}),
                                                            **({"mode": "active"} if mode == "active" and gate != "open" else {}),
                                                            **({"hole": hole} if hole and gate == "open" and any(c[1] == "refresh" for c in cs) else {}),
                                                            **({"outage_age": [5.0, 6.5, 8.0, 9.5, 10.5, 12.0, 14.0, 20.0][(hole + len(cs) + len(s2c)) % 8]} if gate == "outage" else {})),
        st.lists(caller, min_size=1, max_size=8), st.lists(act, max_size=24),
        st.lists(st.sampled_from(["d", "d", "d", "x"]), max_size=10), jitter,
        st.sampled_from(["open", "open", "open", "open", "stale-ping", "not-connected", "outage"]), noise, st.sampled_from(["idle", "active"]), st.sampled_from([0, 0, 1, 4, 7]),
        foreign)


def _verb(datagram):
    p = R.unframe(datagram)
    return bytes(p[2][:5]) if p else None


def run_case(case) -> Result:
    from geckolib import GeckoConfig
    from geckolib.driver import GeckoGetChannelProtocolHandler

    res = Result()
    jitter = [min(float(j), J_MAX) for j in case.get("jitter", [])]
    J = max(jitter) if jitter else 0.0
    gate = case.get("gate", "open")
    if gate not in ("open", "stale-ping", "not-connected", "outage"):
        raise InvalidCase(gate)
    W = vworld.World(jitter=jitter or None)
    sim = vworld.make_simulator()
    peer = W.add_peer(sim)
    stats = {"overlap": False, "lost": False, "cancelled": False}

    async def main(W):
        spa, tm, ev = await clients.connect_async_spa(W, peer, keep_loops=(gate in ("open", "outage", "not-connected")))
        try:
            proto = spa._protocol
            lock = recording.install_lock(proto, W)
            if gate == "not-connected":
                # before the timing table is switched: the switch wakes the refresh loop, which must already find the spa gone
                spa._is_connected = False
            if case.get("mode") == "active" or gate == "outage":
                # the active timing table (a pump is running): ping frequency 2 s, so "not answering pings" starts after 4 s
                from geckolib.config import set_config_mode
                set_config_mode(True)
                await W.sleep(0.05)
            timeout, pause = GeckoConfig.PROTOCOL_TIMEOUT_IN_SECONDS, GeckoConfig.PAUSE_BETWEEN_RETRIES_IN_SECONDS
            foreign_task = None
            if case.get("foreign"):
                bodies = [R.ping_response(), R.channel_response(7, 9), R.watercare_response(3), R.pack_response(), R.reminders_response([[1, 5]])]

                async def foreign_stream():
                    # two datagrams per half second (a ping answer + one reply kind in rotation): well below what the packet
                    # consumer takes per second (one per polling interval), so the receive queue does not build up
                    k_ = 0
                    while True:
                        for body in (bodies[0], bodies[1 + k_ % (len(bodies) - 1)]):
                            W.inject(W.transports[-1], R.frame(FOREIGN_SPA, clients.CLIENT_ID, body), ("10.0.0.77", 10022))
                        k_ += 1
                        await W.sleep(0.5)
                foreign_task = asyncio.ensure_future(foreign_stream())
            if gate == "stale-ping":
                spa._last_ping = W.clock.t - (GeckoConfig.PING_FREQUENCY_IN_SECONDS * 2 + 1)
            elif gate == "outage":
                # the real thing: the spa goes silent while the library's own ping loop keeps running (active table: pings every
                # 2 s, "not answering" after 4 s); every command / query issued later must be refused
                clients.keep_ping_fresh(spa, W)
                W.blackout = True
                await W.sleep(float(case.get("outage_age", 14.0)))
            elif gate == "not-connected":
                spa._is_connected = False
                clients.keep_ping_fresh(spa, W)
            else:
                clients.keep_ping_fresh(spa, W)
            await W.sleep(0.35)
            W.s2c_tape = clients.decode_tape(case.get("s2c", []))
            W.c2s_tape = clients.decode_tape(case.get("c2s", []))
            w0, d0 = len(W.wire), len(W.delivered)
            t_base = W.clock.t
            calls = []

            async def one(ix, delay, kind, retry):
                await W.sleep(delay)
                rec = {"ix": ix, "kind": kind, "retry": retry, "t_call": W.clock.t, "creates": 0}
                calls.append(rec)
                if kind == "get":
                    def factory():
                        rec["creates"] += 1
                        return GeckoGetChannelProtocolHandler.request(proto.get_and_increment_sequence_counter(False), parms=spa.sendparms)
                    try:
                        r = await proto.get(factory, None, retry)
                    except Exception as exc:  # noqa
                        if not damage["on"]:
                            raise
                        r = None                  # an undecodable reply surfaces as an error of the call: a failure, not a reply
                        rec["raised"] = repr(exc)
                    rec["result"] = r is not None
                elif kind == "press":
                    await spa.async_press(1 + ix % 5)
                elif kind == "set":
                    await spa._on_async_set_value(300 + ix, 1, ix)
                elif kind == "getwc":
                    rec["result"] = (await spa.async_get_watercare()) is not None
                elif kind == "setwc":
                    await spa.async_set_watercare(ix % 5)
                elif kind == "rem":
                    rec["result_list"] = await spa.async_get_reminders()
                elif kind == "refresh":
                    # the refresh loop's multi-segment request (log range), with its own retry budget
                    rec["result"] = bool(await spa.struct.get(proto, spa._get_status_block_handler_func, retry))
                else:
                    raise InvalidCase(kind)
                rec["t_return"] = W.clock.t

            # (not next to cancelled callers or the foreign stream: an undecodable reply that its caller no longer waits for would be
            # met by a later caller at the head of the queue)
            damage = {"on": bool(case.get("damage")) and gate == "open" and any(c_[1] == "get" for c_ in case["callers"])
                      and not case.get("foreign") and not any(len(c_) > 3 and float(c_[3]) > 0 for c_ in case["callers"]), "left": 1, "n": 0}
            if damage["on"]:
                # the first channel reply arrives with the right verb but a payload the decoder cannot read
                def dmg(data):
                    i_ = data.find(b"<DATAS>CHCUR")
                    if i_ >= 0 and damage["left"] > 0:
                        damage["left"] -= 1
                        damage["n"] += 1
                        return ("replace", data[:i_ + 12] + b"\x07" + b"</DATAS></PACKT>")
                    return None
                W.s2c_filter = dmg
            noise = case.get("noise")
            if noise:
                n_start, n_count, n_gap = float(noise[0]), min(int(noise[1]), 60), max(int(noise[2]), 50) / 1000.0
                async def noise_stream():
                    # (a task that sleeps, not inject(delay=...): a delayed injection would push the FIFO horizon of the whole
                    # connection to the end of the stream and hold every reply back behind it)
                    await W.sleep(n_start)
                    for i in range(n_count):
                        W.inject(W.transports[-1], R.frame(sim.vp_identifier, clients.CLIENT_ID, b"NOISE" + bytes([i])), peer.addr)
                        await W.sleep(n_gap)
                noise_task = asyncio.ensure_future(noise_stream())
            tasks = []
            noise_task = None if not noise else noise_task
            cancelled_ix = set()
            if case.get("hole"):
                # every status answer loses one middle segment, for ever: each refresh attempt ends out of sequence
                hole = {"n": 0}

                def flt(data):
                    if b"<DATAS>STATV" not in data:
                        return None
                    ix_ = data[data.index(b"<DATAS>STATV") + 12]
                    return "drop" if ix_ == 1 + int(case["hole"]) % 10 else None
                W.s2c_filter = flt
            for ix, c_ in enumerate(case["callers"]):
                delay, kind, retry = c_[0], c_[1], c_[2]
                if kind in ("get", "refresh") and not 1 <= int(retry) <= 10:
                    raise InvalidCase(c_)      # the retry count of a request is 1..10 (0 would mean "never transmit")
                cancel_after = float(c_[3]) if len(c_) > 3 else 0.0
                t = asyncio.ensure_future(one(ix, float(delay), kind, int(retry)))
                t.set_name(f"VP:{ix}:{kind}")
                tasks.append(t)
                if cancel_after > 0 and gate == "open":
                    cancelled_ix.add(ix)
                    W.loop.call_at_exact(W.clock.t + float(delay) + cancel_after, t.cancel)
            # upper bound for everything queued one after the other
            limit = W.clock.t + 25 + (len(tasks) + 3) * 10 * (timeout + pause + 1)
            while not all(t.done() for t in tasks) and W.clock.t < limit:
                await W.sleep(0.5)
            for t in tasks:
                if not t.done():
                    res.fail("C06|caller-never-completes", f"{t.get_name()} still pending after {limit - t_base:.0f} virtual seconds")
                    t.cancel()
                elif t.cancelled():
                    continue
                elif t.exception() is not None:
                    raise t.exception()
            if noise_task is not None:
                await noise_task
            if foreign_task is not None:
                foreign_task.cancel()
            if gate == "not-connected" and not res.violations:
                # the connection's own periodic callers are behind the same gates: one full refresh period (idle table 120 s,
                # active table 30 s) with the gate closed must not produce a single query of theirs.  (Not judged for an outage:
                # a refresh iteration that began while the spa still answered legitimately runs through its retries.)
                await W.sleep(GeckoConfig.SPA_PACK_REFRESH_FREQUENCY_IN_SECONDS + 5.0)
            if res.violations:
                return
            W.s2c_tape, W.c2s_tape = [], []
            # the connection's own callers (ping loop, refresh loop, tidy task) are callers too: none of them may have been
            # taken down by what the generated callers went through (retry pauses, timeouts)
            if gate == "open":
                for t in tm._tasks:
                    if t.get_name() in ("SPA:Ping loop", "SPA:Refresh loop", "ASYNC:Tidy tasks") and t.done():
                        why = "cancelled" if t.cancelled() else repr(t.exception())
                        res.fail(f"C06|library-task-died|{t.get_name()}", f"{t.get_name()} ended ({why}) while the generated callers ran")
            wire = [w for w in W.wire[w0:] if w[1] == "c2s"]
            # (what another module sends to our client identifier is not a reply of the connected spa)
            deliv = [x for x in W.delivered[d0:] if (R.unframe(x[2]) or (None,))[0] != FOREIGN_SPA]
            by_task = {}
            for rec in lock.log:
                by_task.setdefault(rec["task"], []).append(rec)
            windows = [r for r in lock.log if r["acquired"] is not None and r["released"] is not None and r["acquired"] >= t_base - 1e-9]
            # ---- (c)(d) FIFO grants, no overlap
            ordered = sorted((r for r in lock.log if r["acquired"] is not None), key=lambda r: r["requested"])
            for a, b in zip(ordered, ordered[1:]):
                if b["acquired"] < a["acquired"] - 1e-9:
                    res.fail("C06|lock-order", f"{b['task']} (requested {b['requested']:.3f}) was served before {a['task']} (requested {a['requested']:.3f})")
                    break
            byacq = sorted(windows, key=lambda r: r["acquired"])
            for a, b in zip(byacq, byacq[1:]):
                if b["acquired"] < a["released"] - 1e-9:
                    res.fail("C06|two-in-flight", f"{a['task']} and {b['task']} held the request lock at the same time")
                    break
                if b["requested"] < a["released"]:
                    stats["overlap"] = True
            # ---- (b) every request datagram lies inside exactly one window of a task that sends that verb
            for t_, _, src, dst, data, fate in wire:
                v = _verb(data)
                if v in (b"STATQ", None):
                    continue
                if t_ < t_base:
                    continue
                owners = [r for r in lock.log if r["acquired"] is not None and r["acquired"] - 1e-9 <= t_ <= (r["released"] if r["released"] is not None else 1e18) + 1e-9]
                if len(owners) != 1:
                    res.fail("C06|send-outside-lock", f"{v!r} sent at {t_ - t_base:.3f} lies in {len(owners)} lock windows")
                    continue
                name = owners[0]["task"]
                if name.startswith("VP:"):
                    want = KIND_VERB[name.split(":")[2]]
                    if v != want:
                        res.fail("C06|interleaved-send", f"{v!r} was sent inside the lock window of {name} (expects {want!r})")
                elif name == "SPA:Refresh loop" and gate == "not-connected":
                    res.fail(f"C06|gate-{gate}|refresh-loop", f"the connection's refresh loop sent {v!r} at {t_ - t_base:.1f}s although the spa is not connected")
                    break
                elif name == "SPA:Ping loop" and v != b"APING":
                    res.fail("C06|interleaved-send", f"{v!r} inside the ping loop's window")
                elif name == "SPA:Refresh loop" and v not in (b"STATU", b"CURCH"):
                    res.fail("C06|interleaved-send", f"{v!r} inside the refresh loop's window")
            # ---- per caller
            for rec in calls:
                if rec["ix"] in cancelled_ix and "t_return" not in rec:
                    stats["cancelled"] = True
                    continue   # its task was cancelled by the harness: only what it left behind matters (the others complete)
                name = f"VP:{rec['ix']}:{rec['kind']}"
                wins = by_task.get(name, [])
                verb = KIND_VERB[rec["kind"]]
                sends = [w for w in wire if _verb(w[4]) == verb and any(
                    r["acquired"] is not None and r["acquired"] - 1e-9 <= w[0] <= (r["released"] or 1e18) + 1e-9 for r in wins)]
                retry = rec["retry"] if rec["kind"] in ("get", "refresh") else GeckoConfig.PROTOCOL_RETRY_COUNT
                if gate != "open" and rec["kind"] in GATED:
                    if sends or wins:
                        res.fail(f"C06|gate-{gate}|{rec['kind']}", f"{name} sent {len(sends)} datagrams / took the lock {len(wins)} times while the gate is closed")
                    if rec["t_return"] - rec["t_call"] > 0.01:
                        res.fail(f"C06|gate-slow|{rec['kind']}", f"{name} took {rec['t_return'] - rec['t_call']:.2f}s to refuse")
                    continue
                if len(wins) != 1:
                    res.fail("C06|lock-windows", f"{name} has {len(wins)} lock windows")
                    continue
                win = wins[0]
                if len(sends) > retry:
                    res.fail(f"C06|too-many-sends|{rec['kind']}", f"{name}: {len(sends)} transmissions, retry count {retry}")
                if len(sends) < 1:
                    res.fail(f"C06|no-send|{rec['kind']}", f"{name} sent nothing")
                if rec["kind"] == "get" and rec["creates"] != len(sends):
                    res.fail("C06|request-not-fresh", f"{name}: request built {rec['creates']} times for {len(sends)} transmissions")
                # sequence numbers of the attempts differ (each attempt freshly built)
                seqs = [R.unframe(w[4])[2][5] for w in sends if len(R.unframe(w[4])[2]) > 5]
                if len(set(seqs)) != len(seqs):
                    res.fail(f"C06|attempt-reused|{rec['kind']}", f"{name}: attempts carry sequence numbers {seqs}")
                # attempts are one at a time: gap between attempts >= timeout (a multi-segment status request may also end an
                # attempt early, when the final segment arrives out of sequence)
                for a, b in zip(sends, sends[1:] if rec["kind"] != "refresh" else []):
                    if b[0] - a[0] < timeout - 1e-6:
                        res.fail(f"C06|attempt-overlap|{rec['kind']}", f"{name}: attempts {b[0] - a[0]:.3f}s apart (timeout {timeout})")
                        break
                # ... and a retry follows its predecessor after the timeout and the pause, not later (a request kind that carries a
                # longer timeout of its own would hold the engine - and everybody queued behind it - that much longer)
                for a, b in zip(sends, sends[1:] if rec["kind"] != "refresh" else []):
                    if b[0] - a[0] > timeout + pause + 3 * (vworld.POLL + J) + 0.01:
                        res.fail(f"C06|attempt-late|{rec['kind']}", f"{name}: attempts {b[0] - a[0]:.3f}s apart, timeout {timeout} + pause {pause}")
                        break
                # (judged only when nothing stale can be queued: no caller cancelled mid-answer, no duplicated / delayed / swapped
                # datagrams - a left-over final segment of an older answer legitimately ends the attempt that meets it)
                clean_stream = not cancelled_ix and not noise and not case.get("foreign") and all(a_ in ("deliver", "drop") for a_ in clients.decode_tape(case.get("s2c", [])))
                if rec["kind"] == "refresh" and clean_stream:
                    # a status attempt may end early, but only once the spa has finished the previous answer (its final segment was
                    # delivered): a new request while the old answer is still streaming means two requests in flight
                    for a, b in zip(sends, sends[1:]):
                        if b[0] - a[0] >= timeout - 1e-6:
                            continue
                        finals = [t_ for t_, _, d_ in deliv if a[0] < t_ <= b[0] + 1e-9 and b"<DATAS>STATV" in d_
                                  and d_[d_.index(b"<DATAS>STATV") + 13] == 0]
                        if not finals:
                            res.fail("C06|attempt-overlap|refresh", f"{name}: status request re-sent {b[0] - a[0]:.3f}s after the previous one although "
                                     f"neither the timeout ({timeout}) had passed nor the final segment of the previous answer had arrived")
                            break
                dur = win["released"] - win["acquired"]
                bound = retry * (timeout + pause) + retry * 2 * (vworld.POLL + J) + 0.01
                if rec["kind"] == "refresh":
                    # every arriving segment restarts the attempt's timeout: an attempt lasts at most the chain (13 segments,
                    # 20 ms apart, < 1 s) plus one timeout; there is no pause between status attempts
                    # (+ the delays the fault tape may put on single segments, <= 6.5 s each, at most two per attempt count)
                    bound = retry * (timeout + 1.0 + 13.0) + retry * 2 * (vworld.POLL + J) + 0.01
                if dur > bound:
                    res.fail(f"C06|completion-bound|{rec['kind']}", f"{name} held the engine {dur:.2f}s, bound {bound:.2f}s (retry {retry})")
                # result vs deliveries
                rv = RESPONSE[verb]
                got_in = lambda a, b_: any(a <= t_ <= b_ and _verb(d_) == rv for t_, _, d_ in deliv)
                sure = any(got_in(s[0], s[0] + timeout - 3 * (vworld.POLL + J)) for s in sends)
                # a datagram delivered shortly before the attempt may still be in the receive queue when it starts: an unclaimed
                # head is discarded within 6 x (poll + J) (the bound C07 checks), so the window opens that much earlier
                maybe = any(got_in(s[0] - 6 * (vworld.POLL + J), s[0] + timeout + 3 * (vworld.POLL + J)) for s in sends)
                # Attribution of replies to attempts by time only works while nothing piles up in the receive queue: an abandoned
                # multi-segment answer (cancelled or failed status request) or a noise stream leaves datagrams that delay everything
                # behind them by up to 6 x (poll + J) each.  (Whether a status transfer succeeds under loss is C01's question.)
                backlog = bool(noise) or bool(cancelled_ix) or any(c_[1] == "refresh" for c_ in case["callers"]) or bool(case.get("foreign"))
                if damage["on"] and rec["kind"] == "get" and rec.get("result") and not any(
                        _verb(d_) == b"CHCUR" and len(R.unframe(d_)[2]) == 7 for t_, _, d_ in deliv if sends and t_ >= sends[0][0] - 1.0):
                    res.fail("C06|damaged-reply-accepted|get", f"{name} returned a reply although the only channel reply delivered during its attempts was undecodable")
                if "result" in rec and rec["kind"] != "refresh" and not backlog and not damage["on"]:
                    # (a stream of unclaimed datagrams lets a reply wait in the receive queue beyond any attempt window, so the
                    # attribution of replies to attempts by time is only judged without one)
                    if rec["result"] and not maybe:
                        res.fail(f"C06|reply-from-nowhere|{rec['kind']}", f"{name} returned a reply but no {rv!r} datagram was delivered during its attempts")
                    # (with a noise stream the reply can sit behind unclaimed datagrams for the whole attempt: not judged)
                    if not rec["result"] and sure and not jitter:
                        res.fail(f"C06|reply-ignored|{rec['kind']}", f"{name} reported failure although {rv!r} was delivered during an attempt")
                    if not rec["result"]:
                        stats["lost"] = True
                if len(sends) > 1:
                    stats["lost"] = True
        finally:
            await clients.shutdown(tm)

    W.run(main)
    res.nontrivial = (stats["overlap"] and stats["lost"]) or gate != "open"
    res.label("gate-" + gate + ("-active-table" if case.get("mode") == "active" else ""))
    if stats["overlap"]:
        res.label("overlapping-callers")
    if stats["lost"]:
        res.label("lost-or-late-reply")
    if case.get("noise"):
        res.label("noise-stream")
    if case.get("foreign"):
        res.label("foreign-module-addresses-our-client-id")
    if case.get("damage"):
        res.label("undecodable-reply")
    if stats["cancelled"]:
        res.label("caller-cancelled-mid-request")
    if case.get("hole"):
        res.label("status-answers-lose-a-segment")
    return res
