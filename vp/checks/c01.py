"""C01  Status-block transfer installs the spa's bytes or nothing, under any faults.

Async: a really connected GeckoAsyncSpa in the virtual-time world (real packet consumer and
catch-all consumer running) fetches ranges with struct.get from the in-process GeckoSimulator
through a fault tape.  Threaded: GeckoStructure.retry_request on the stepped engine (E4).
"""
import asyncio

from hypothesis import strategies as st

from .. import clients, vworld
from ..runner import HarnessError, InvalidCase, Result, SetupFailed

ID = "C01"
LEVEL = "fault_enumeration"
RULE = (
    "enumerated fault-free sweep: every length 1..1024 at start 0, every start at length 1024-start, "
    "and a (start,length) lattice (quick 32x32 incl. all multiples of 39 boundaries; thorough 13-byte "
    "lattice), async and threaded; generated: client block, spa block, 1..4 transfers per connection "
    "each with (start,length) boundary-biased (multiples of 39 +-1, block end), retry count 1..10, and "
    "fault tapes over the request datagrams (drop/dup/delay) and the segment datagrams "
    "(drop/dup/delay/swap), optional timer jitter; spa blocks that spell framing tags / verbs / newlines; an unsolicited partial "
    "update arriving right behind the k-th segment (async). Non-trivial = >=2 segments and >=1 non-deliver tape "
    "entry consumed by a segment; distinct by canonical case."
)
ASSUMPTIONS = [
    "delays are bounded (<=3 s) and the world is drained between transfers (quantifier: delays shorter than the gap between distinct transfers)",
    "the spa block does not change during one transfer",
    "fault-free 'must succeed' is asserted on the nominal schedule only (no timer jitter)",
]
BUDGET = {
    "quick": {"workers": 16, "examples": 4800},
    "thorough": {"workers": 16, "examples": 60000},
}
BLOCK = 1024
SEG = 39


TAGGY = [b"</DATAS>", b"</PACKT>", b"<DATAS>", b"</DESCN><DATAS>", b"\n", b"\r\n", b"STATV", b"<PACKT>", b" \t "]


def _blocks(seed, taggy=0):
    S = bytearray(clients.prng("S", seed, n=BLOCK))
    if taggy:
        # the spa's bytes may spell framing tags, verbs, newlines: still just data
        pos = clients.prng("T", seed, taggy, n=24)
        for i in range(12):
            t = TAGGY[(pos[2 * i] + taggy) % len(TAGGY)]
            off = ((pos[2 * i] << 8 | pos[2 * i + 1]) * 7) % (BLOCK - len(t))
            S[off:off + len(t)] = t
    return bytes(S), clients.prng("C", seed, n=BLOCK)


# ------------------------------------------------------------------ async world


def _check_transfer(res, tag, cls, C, S, C2, ok, start, length, retry, nstatu, faulty, jitter):
    sig = f"C01|{{}}|{cls}"
    if len(C2) != BLOCK:
        res.fail(sig.format("block-length"), f"{tag}: client block has {len(C2)} bytes after get({start},{length})")
        return
    if ok:
        if C2[start:start + length] != S[start:start + length]:
            bad = [i for i in range(start, start + length) if C2[i] != S[i]][:8]
            res.fail(sig.format("success-but-wrong-bytes"),
                     f"{tag}: get({start},{length}) reported success but bytes {bad} differ from the spa's")
        other = [i for i in range(BLOCK) if C2[i] != C[i] and C2[i] != S[i]]
        if other:
            res.fail(sig.format("foreign-bytes"), f"{tag}: bytes {other[:8]} changed to a value that is neither old nor the spa's")
    else:
        if C2 != C:
            bad = [i for i in range(BLOCK) if C2[i] != C[i]][:8]
            res.fail(sig.format("failed-but-modified"), f"{tag}: get({start},{length}) reported failure but bytes {bad} changed")
        if not faulty and not jitter:
            res.fail(sig.format(f"fault-free-failure|len%39={'0' if length % SEG == 0 else 'x'}"),
                     f"{tag}: fault-free get(start={start}, length={length}) against the bundled simulator failed")
    if nstatu > retry:
        res.fail(sig.format("too-many-requests"), f"{tag}: {nstatu} STATU requests sent, retry count {retry}")
    if nstatu < 1:
        res.fail(sig.format("no-request"), f"{tag}: no request sent")


def _run_async(res, case):
    from geckolib.driver import GeckoStatusBlockProtocolHandler

    S, C = _blocks(case["seed"], int(case.get("taggy", 0)))
    W = vworld.World(jitter=case.get("jitter") or None)
    sim = vworld.make_simulator()
    peer = W.add_peer(sim)
    stats = {"segs_faulted": 0, "multi": False}

    rel = case.get("rel")
    import geckolib.utils.simulator as simmod
    import random as _random
    saved_random = simmod.random

    async def main(W):
        spa, tm, ev = await clients.connect_async_spa(W, peer)
        if rel:
            # from here on the simulator itself loses requests / segments, by its own (here: seeded) draw
            simmod.random = _random.Random(int(rel[1]))
            sim._reliability = float(rel[0])
        try:
            for n, tr in enumerate(case["transfers"]):
                start, length, retry = tr["start"], tr["len"], tr["retry"]
                if not (0 <= start and length >= 1 and start + length <= BLOCK and 1 <= retry <= 10):
                    raise InvalidCase(tr)
                sim.structure.set_status_block(S)
                spa.struct.set_status_block(C)
                W.c2s_tape = clients.decode_tape(tr.get("c2s", []))
                W.s2c_tape = clients.decode_tape(tr.get("s2c", []))
                W.s2c_cycle = list(W.s2c_tape) if tr.get("cyc") and W.s2c_tape else None
                n_s2c0 = len(W.s2c_tape)
                w0 = len(W.wire)
                C_exp = C
                inj = tr.get("statp")
                watcher = None
                if inj:
                    # an unsolicited partial update arriving right behind the k-th segment of the transfer; its change count
                    # equals the index of the next segment, its records lie outside the range the transfer installs
                    k_seg, n_rec = int(inj[0]), max(1, int(inj[0]))
                    lo, hi = start, min(BLOCK, start + -(-length // SEG) * SEG)
                    free = [p_ for p_ in range(0, BLOCK - 1, 2) if p_ + 2 <= lo or p_ >= hi]
                    if len(free) >= n_rec:
                        recs = [(free[(int(inj[1]) * 31 + j * 17) % len(free)], bytes([(j * 37 + 1) & 255, (j * 11 + 3) & 255])) for j in range(n_rec)]
                        from .. import refcodec as R
                        dg = R.frame(sim.vp_identifier, clients.CLIENT_ID, R.partial_update(recs))
                        for p_, d_ in recs:
                            C_exp = C_exp[:p_] + d_ + C_exp[p_ + 2:]
                        d0 = len(W.delivered)

                        async def watch():
                            while True:
                                nseg = sum(1 for _, _, x in W.delivered[d0:] if b"<DATAS>STATV" in x)
                                if nseg >= k_seg:
                                    W.delivered.append((W.clock.t, W.transports[-1].local_addr, dg))
                                    W.transports[-1].protocol.datagram_received(dg, peer.addr)
                                    stats["statp"] = True
                                    return
                                await W.sleep(0.004)
                        watcher = asyncio.ensure_future(watch())
                task = asyncio.ensure_future(spa.struct.get(
                    spa._protocol,
                    lambda: GeckoStatusBlockProtocolHandler.request(
                        spa._protocol.get_and_increment_sequence_counter(False), start, length, parms=spa.sendparms),
                    retry))
                # runaway guard in virtual time: every attempt ends after at most timeout(4 s) of
                # silence; a chain takes < 1 s; tape delays are <= 3 s
                deadline = W.clock.t + retry * 12.0 + 30.0
                while not task.done() and W.clock.t < deadline:
                    await W.sleep(0.1)
                if not task.done():
                    task.cancel()
                    await asyncio.gather(task, return_exceptions=True)
                    nst = sum(1 for w in W.wire[w0:] if w[1] == "c2s" and b"<DATAS>STATU" in w[4])
                    res.fail("C01|does-not-terminate|async",
                             f"transfer #{n}: get({start},{length}, retry={retry}) still running after "
                             f"{retry * 12 + 30} virtual seconds, {nst} STATU requests sent so far")
                    return
                ok = task.result()
                if watcher is not None:
                    if not watcher.done():
                        watcher.cancel()
                        await asyncio.gather(watcher, return_exceptions=True)
                        C_exp = C          # the update was never sent
                    else:
                        await W.sleep(0.8)   # let the partial-update consumer take it
                C2 = spa.struct.status_block
                wire = W.wire[w0:]
                nstatu = sum(1 for w in wire if w[1] == "c2s" and b"<DATAS>STATU" in w[4])
                seg_faults = sum(1 for w in wire if w[1] == "s2c" and w[5] not in ("deliver",))
                req_faults = sum(1 for w in wire if w[1] == "c2s" and w[5] not in ("deliver",))
                faulty = bool(seg_faults or req_faults or rel)
                if rel and length > SEG:
                    stats["segs_faulted"] += 1
                _check_transfer(res, f"transfer #{n}", "async", C_exp, S, C2, ok, start, length, retry, nstatu, faulty,
                                bool(case.get("jitter")))
                if seg_faults and length > SEG:
                    stats["segs_faulted"] += 1
                res.label("async-ok" if ok else "async-failed")
                # drain: nothing of this transfer may survive into the next
                W.c2s_tape, W.s2c_tape, W.s2c_cycle = [], [], None
                if not await W.drain([spa._protocol.queue]):
                    raise SetupFailed("connection did not drain between transfers")
        finally:
            sim._reliability = 1.0
            await clients.shutdown(tm)

    try:
        W.run(main)
    finally:
        simmod.random = saved_random
    if rel:
        res.label("simulator-reliability-below-1")
    res.nontrivial = stats["segs_faulted"] > 0
    return res


# ------------------------------------------------------------------ threaded (E4)


def _run_threaded(res, case):
    from .. import stepped

    S, C = _blocks(case["seed"], int(case.get("taggy", 0)))
    trs = []
    for tr in case["transfers"]:
        start, length = tr["start"], tr["len"]
        if not (0 <= start and length >= 1 and start + length <= BLOCK):
            raise InvalidCase(tr)
        trs.append({"start": start, "len": length, "c2s": clients.decode_tape(tr.get("c2s", [])),
                    "s2c": clients.decode_tape(tr.get("s2c", [])), "s2c_cycle": tr.get("cyc", False)})
    outs = stepped.run_structure_transfers(S, C, trs)
    for n, (tr, out) in enumerate(zip(case["transfers"], outs)):
        # the handler's own retry budget: 1 initial transmission + PROTOCOL_RETRY_COUNT retries
        _check_transfer(res, f"transfer #{n}", "threaded", C, S, out["block"], out["ok"], tr["start"], tr["len"],
                        out["budget"], out["nstatu"], out["faulty"], False)
        if out["seg_faults"] and tr["len"] > SEG:
            res.nontrivial = True
        res.label("threaded-ok" if out["ok"] else "threaded-failed")
    return res


# ------------------------------------------------------------------ enumeration / generation


def _sweep(tier):
    pairs = []
    for length in range(1, BLOCK + 1):
        pairs.append((0, length))
    for start in range(1, BLOCK):
        pairs.append((start, BLOCK - start))
    if tier == "thorough":
        for start in range(0, BLOCK, 13):
            for length in range(1, BLOCK - start + 1, 13):
                pairs.append((start, length))
            for k in range(1, (BLOCK - start) // SEG + 1):
                for d in (-1, 0, 1):
                    if 1 <= k * SEG + d <= BLOCK - start:
                        pairs.append((start, k * SEG + d))
    else:
        for start in range(0, BLOCK, 33):
            for length in range(1, BLOCK - start + 1, 33):
                pairs.append((start, length))
            for k in (1, 2, 5, 13, 26):
                for d in (-1, 0, 1):
                    if 1 <= k * SEG + d <= BLOCK - start:
                        pairs.append((start, k * SEG + d))
    return sorted(set(pairs))


_cases = {}


def enumerated(tier):
    if tier not in _cases:
        pairs = _sweep(tier)
        batch = 48
        cs = []
        for cls in ("async", "threaded"):
            for i in range(0, len(pairs), batch):
                cs.append({"k": cls, "seed": i, "transfers": [
                    {"start": s, "len": ln, "retry": 2} for s, ln in pairs[i:i + batch]]})
        _cases[tier] = cs
    cs = _cases[tier]
    return len(cs), lambda i: cs[i]


def _geom():
    k = st.integers(0, 26)
    return st.one_of(
        st.tuples(st.integers(0, BLOCK - 1), st.integers(1, BLOCK)),
        st.tuples(st.just(0), st.just(BLOCK)),
        st.tuples(st.integers(0, 600), st.tuples(k, st.sampled_from([-1, 0, 1])).map(lambda t: max(1, t[0] * SEG + t[1]))),
    ).map(lambda t: (t[0], max(1, min(t[1], BLOCK - t[0]))))


def strategy(tier):
    seg_action = st.one_of(
        st.sampled_from(["d", "d", "d", "d", "x", "u", "s"]),
        st.floats(0.05, 3.0).map(lambda d: ["l", round(d, 2)]),
    )
    req_action = st.one_of(st.sampled_from(["d", "d", "x", "u"]), st.floats(0.05, 2.0).map(lambda d: ["l", round(d, 2)]))
    transfer = st.builds(
        lambda g, r, c2s, s2c, cyc: {"start": g[0], "len": g[1], "retry": r, "c2s": c2s, "s2c": s2c, "cyc": cyc},
        _geom(), st.integers(1, 10),
        st.lists(req_action, max_size=4),
        st.one_of(st.lists(seg_action, max_size=60),
                  # a single fault somewhere in an otherwise clean chain
                  st.tuples(st.integers(0, 30), st.sampled_from(["x", "u", "s"])).map(lambda t: ["d"] * t[0] + [t[1]])),
        # cyc: the segment tape repeats for ever (a persistent fault that outlasts every retry)
        st.sampled_from([False, False, False, True]),
    )
    def _aligned(g, k, kind, r):
        nseg = -(-g[1] // SEG)
        k = k % nseg if nseg > 1 else 0
        if kind == "tail":      # segments k.. (incl. the final one) are lost on every attempt -> time-outs
            tape = ["d"] * k + ["x"] * (nseg - k)
        elif kind == "hole":    # one middle segment lost on every attempt -> out-of-sequence final segment
            tape = ["d"] * nseg
            tape[k] = "x"
        else:                   # the last two segments swapped on every attempt
            tape = ["d"] * nseg
            if nseg >= 2:
                tape[nseg - 2] = "s"
                tape.pop()
        return {"start": g[0], "len": g[1], "retry": r, "c2s": [], "s2c": tape, "cyc": True}

    persistent = st.builds(_aligned, _geom(), st.integers(0, 26), st.sampled_from(["tail", "tail", "hole", "swap"]),
                           st.integers(1, 4))
    clean = st.builds(lambda g: {"start": g[0], "len": g[1], "retry": 2, "c2s": [], "s2c": [], "cyc": False}, _geom())
    transfer = st.one_of(transfer, transfer, persistent, clean)
    jitter = st.one_of(st.just([]), st.just([]), st.lists(st.sampled_from([0.0, 0.0, 0.01, 0.03, 0.05]), min_size=1, max_size=7))
    with_statp = st.builds(lambda g, inj: {"start": g[0], "len": g[1], "retry": 3, "c2s": [], "s2c": [], "cyc": False, "statp": inj},
                           _geom(), st.tuples(st.integers(1, 6), st.integers(0, 400)).map(list))
    transfer = st.one_of(transfer, transfer, transfer, with_statp)
    # the bundled simulator's own reliability knob (it drops whole requests and single segments itself, by a seeded draw)
    rel = st.one_of(st.none(), st.none(), st.none(), st.tuples(st.sampled_from([0.9, 0.7, 0.5]), st.integers(0, 10**6)).map(list))
    return st.builds(
        lambda k, seed, trs, j, tg, rel: dict({"k": k, "seed": seed, "transfers": trs, "jitter": j if k == "async" else []}, **({"taggy": tg} if tg else {}),
                                              **({"rel": rel} if rel and k == "async" else {})),
        st.sampled_from(["async", "async", "threaded"]), st.integers(0, 2**31),
        st.lists(transfer, min_size=1, max_size=4), jitter, st.sampled_from([0, 0, 1, 2, 3]), rel)


def run_case(case) -> Result:
    res = Result()
    k = case.get("k")
    if k == "async":
        _run_async(res, case)
    elif k == "threaded":
        _run_threaded(res, case)
    else:
        raise InvalidCase(case)
    res.labels.append(("transfers", len(case["transfers"])))
    if not any(t.get("c2s") or t.get("s2c") for t in case["transfers"]):
        res.label("fault-free-batch")
    return res
