"""C04  Wire format: every message round-trips and is claimed by exactly its verb.

Every constructor of every handler class is driven with generated in-range fields; the bytes
are compared with the reference codec (vp/refcodec.py), framed and un-framed through the real
packet handler, offered to every standard handler class (exactly the verb's family must claim
them), decoded by a fresh peer handler, and a reply built from the received packet must come
back with the identifiers swapped (parsed by an index-based reference parser).
"""
import struct

from hypothesis import strategies as st

from .. import packs, refcodec as R
from ..runner import InvalidCase, Result

ID = "C04"
LEVEL = "exploration"
RULE = (
    "generated: message kind (26 constructors) x in-range fields (seq 0..255, pos/len 0..65535, "
    "0..255-byte segments biased to newlines, quotes and tag text such as </DATAS>, "
    "</SRCCN><DESCN>, </PACKT>; reminder lists with signed days; version tuples; every shipped "
    "platform name x versions; latin-1 spa names incl. '|') x identifier pair x sender address; "
    "enumerated: every shipped platform name x cfg 0..255 x log 0..255 for the config-file reply "
    "(thorough: complete, quick: lattice). Non-trivial = payload/name contains a delimiter, tag "
    "text, newline or quote, or a non-ASCII/'|' name, or a multi-record list; distinct by canonical case."
)
ASSUMPTIONS = [
    "identifiers contain no tag text (they are MAC-like / IOS<uuid>), as every real caller guarantees",
    "the reference codec was written from the protocol description and captured traffic, not from the handlers",
]
BUDGET = {
    "quick": {"workers": 16, "examples": 24000},
    "thorough": {"workers": 16, "examples": 600000},
}

TAGGY = [b"\n", b"'", b'"', b"\\", b"</DATAS>", b"<DATAS>", b"</SRCCN><DESCN>", b"</DESCN><DATAS>",
         b"</PACKT>", b"<PACKT>", b"</DATAS></PACKT>", b"<SRCCN>x</SRCCN><DESCN>y</DESCN><DATAS>z</DATAS>",
         b"\x00", b"\xff", b"|", b"</HELLO>"]


def _lib():
    import geckolib.driver as d
    return d


def _families():
    d = _lib()
    return {
        "ping": (d.GeckoPingProtocolHandler,),
        "version": (d.GeckoVersionProtocolHandler,),
        "channel": (d.GeckoGetChannelProtocolHandler,),
        "configfile": (d.GeckoConfigFileProtocolHandler,),
        "status": (d.GeckoStatusBlockProtocolHandler,),
        "partial": (d.GeckoPartialStatusBlockProtocolHandler, d.GeckoAsyncPartialStatusBlockProtocolHandler),
        "watercare": (d.GeckoWatercareProtocolHandler,),
        "wcerr": (d.GeckoWatercareErrorHandler,),
        "firmware": (d.GeckoUpdateFirmwareProtocolHandler,),
        "reminders": (d.GeckoRemindersProtocolHandler,),
        "pack": (d.GeckoPackCommandProtocolHandler,),
        "rferr": (d.GeckoRFErrProtocolHandler,),
    }


class _Sock:
    def __init__(self):
        self.sent = []
        self.n = 0

    def queue_send(self, h, dest=None):
        self.sent.append((h, dest))

    def get_and_increment_sequence_counter(self, cmd):
        self.n += 1
        return 7


def _new(cls):
    d = _lib()
    if cls in (d.GeckoPartialStatusBlockProtocolHandler, d.GeckoAsyncPartialStatusBlockProtocolHandler):
        return cls(_Sock())
    return cls()


def _run(coro):
    try:
        coro.send(None)
    except StopIteration:
        return
    coro.close()
    raise AssertionError("suspended")


# ------------------------------------------------------------------ message kinds
# name -> (family, build(lib, f, kw) -> handler, ref(f) -> bytes, decode-check(peer, f) -> [problems])


def _hx(f, k):
    return bytes.fromhex(f[k])


def _attrs(peer, **exp):
    bad = []
    for k, v in exp.items():
        got = getattr(peer, k, "<missing>")
        if got != v or (isinstance(v, (bool, int, str, bytes)) and type(got) is not type(v)):
            bad.append(f"{k}={got!r} expected {v!r}")
    return bad


def _dec_partial(peer, f):
    d = _lib()
    changes = [(p, bytes.fromhex(h)) for p, h in f["changes"]]
    sender = ("10.0.0.9", 10022, b"SPA", b"IOS")
    if isinstance(peer, d.GeckoAsyncPartialStatusBlockProtocolHandler):
        _run(peer.async_handle(R.partial_update(changes), sender))
        sock = peer._protocol
    else:
        peer.handle(R.partial_update(changes), sender)
        sock = peer._socket
    bad = []
    if list(peer.changes) != changes:
        bad.append(f"changes={peer.changes!r} expected {changes!r}")
    if len(sock.sent) != 1:
        bad.append(f"{len(sock.sent)} acknowledgements queued")
    else:
        got = R.unframe(sock.sent[0][0].send_bytes)
        if got is None or got[2] != R.partial_ack(7):
            bad.append(f"acknowledgement {sock.sent[0][0].send_bytes!r}")
        elif (got[0], got[1]) != (b"IOS", b"SPA"):
            # the update came from SPA addressed to IOS: the acknowledgement goes back with the identifiers swapped
            bad.append(f"acknowledgement framed {got[0]!r} -> {got[1]!r}, the update came from b'SPA' for b'IOS'")
        dest = sock.sent[0][1]
        if dest is not None and tuple(dest[:2]) != ("10.0.0.9", 10022):
            bad.append(f"acknowledgement queued for {dest!r}, the update came from ('10.0.0.9', 10022)")
    return bad


def _kinds():
    d = _lib()
    K = {}
    K["ping_req"] = ("ping", lambda f, kw: d.GeckoPingProtocolHandler.request(**kw), lambda f: R.ping_request(),
                     lambda p, f: [])
    K["ping_rsp"] = ("ping", lambda f, kw: d.GeckoPingProtocolHandler.response(**kw), lambda f: R.ping_response(),
                     lambda p, f: _attrs(p, _sequence=0))
    K["vers_req"] = ("version", lambda f, kw: d.GeckoVersionProtocolHandler.request(f["seq"], **kw),
                     lambda f: R.version_request(f["seq"]), lambda p, f: _attrs(p, _sequence=f["seq"]))
    K["vers_rsp"] = ("version", lambda f, kw: d.GeckoVersionProtocolHandler.response(tuple(f["en"]), tuple(f["co"]), **kw),
                     lambda f: R.version_response(f["en"], f["co"]),
                     lambda p, f: _attrs(p, en_build=f["en"][0], en_major=f["en"][1], en_minor=f["en"][2],
                                         co_build=f["co"][0], co_major=f["co"][1], co_minor=f["co"][2]))
    K["chan_req"] = ("channel", lambda f, kw: d.GeckoGetChannelProtocolHandler.request(f["seq"], **kw),
                     lambda f: R.channel_request(f["seq"]), lambda p, f: _attrs(p, _sequence=f["seq"]))
    K["chan_rsp"] = ("channel", lambda f, kw: d.GeckoGetChannelProtocolHandler.response(f["ch"], f["sig"], **kw),
                     lambda f: R.channel_response(f["ch"], f["sig"]),
                     lambda p, f: _attrs(p, channel=f["ch"], signal_strength=f["sig"]))
    K["file_req"] = ("configfile", lambda f, kw: d.GeckoConfigFileProtocolHandler.request(f["seq"], **kw),
                     lambda f: R.configfile_request(f["seq"]), lambda p, f: _attrs(p, _sequence=f["seq"]))
    K["file_rsp"] = ("configfile", lambda f, kw: d.GeckoConfigFileProtocolHandler.response(f["plat"], f["cv"], f["lv"], **kw),
                     lambda f: R.configfile_response(f["plat"], f["cv"], f["lv"]),
                     lambda p, f: _attrs(p, plateform_key=f["plat"], config_version=f["cv"], log_version=f["lv"]))
    K["statu"] = ("status", lambda f, kw: d.GeckoStatusBlockProtocolHandler.request(f["seq"], f["start"], f["len"], **kw),
                  lambda f: R.status_request(f["seq"], f["start"], f["len"]),
                  lambda p, f: _attrs(p, sequence=f["seq"], start=f["start"], length=f["len"]))
    K["statu_full"] = ("status", lambda f, kw: d.GeckoStatusBlockProtocolHandler.full_request(f["seq"], **kw),
                       lambda f: R.status_request(f["seq"], 0, 1024),
                       lambda p, f: _attrs(p, sequence=f["seq"], start=0, length=1024))
    K["statv"] = ("status", lambda f, kw: d.GeckoStatusBlockProtocolHandler.response(f["idx"], f["next"], _hx(f, "data"), **kw),
                  lambda f: R.status_segment(f["idx"], f["next"], _hx(f, "data")),
                  lambda p, f: _attrs(p, sequence=f["idx"], next=f["next"], length=len(_hx(f, "data")), data=_hx(f, "data")))
    K["statp"] = ("partial",
                  lambda f, kw: d.GeckoPartialStatusBlockProtocolHandler.report_changes(
                      _Sock(), [(p_, bytes.fromhex(h)) for p_, h in f["changes"]], **kw),
                  lambda f: R.partial_update([(p_, bytes.fromhex(h)) for p_, h in f["changes"]]),
                  _dec_partial)
    K["spack_key"] = ("pack", lambda f, kw: d.GeckoPackCommandProtocolHandler.keypress(f["seq"], f["pt"], f["key"], **kw),
                      lambda f: R.pack_keypress(f["seq"], f["pt"], f["key"]),
                      lambda p, f: _attrs(p, _sequence=f["seq"], pack_type=f["pt"], is_key_press=True, is_set_value=False, keycode=f["key"]))
    K["spack_set"] = ("pack",
                      lambda f, kw: d.GeckoPackCommandProtocolHandler.set_value(f["seq"], f["pt"], f["cv"], f["lv"], f["pos"], f["len"], f["val"], **kw),
                      lambda f: R.pack_set_value(f["seq"], f["pt"], f["cv"], f["lv"], f["pos"], f["len"], f["val"]),
                      lambda p, f: _attrs(p, _sequence=f["seq"], pack_type=f["pt"], is_set_value=True, is_key_press=False, position=f["pos"],
                                          new_data=(R.u8(f["val"]) if f["len"] == 1 else R.u16(f["val"]))))
    K["packs"] = ("pack", lambda f, kw: d.GeckoPackCommandProtocolHandler.response(**kw), lambda f: R.pack_response(),
                  lambda p, f: _attrs(p, should_remove_handler=True))
    K["getwc"] = ("watercare", lambda f, kw: d.GeckoWatercareProtocolHandler.request(f["seq"], **kw),
                  lambda f: R.watercare_request(f["seq"]), lambda p, f: _attrs(p, _sequence=f["seq"], schedule=False))
    K["wcget"] = ("watercare", lambda f, kw: d.GeckoWatercareProtocolHandler.response(f["mode"], **kw),
                  lambda f: R.watercare_response(f["mode"]), lambda p, f: _attrs(p, mode=f["mode"], schedule=False))
    K["setwc"] = ("watercare", lambda f, kw: d.GeckoWatercareProtocolHandler.set(f["seq"], f["mode"], **kw),
                  lambda f: R.watercare_set(f["seq"], f["mode"]), lambda p, f: [])
    K["wcreq"] = ("watercare", lambda f, kw: d.GeckoWatercareProtocolHandler.giveschedule(**kw),
                  lambda f: b"WCREQ" + bytes.fromhex(
                      "00000001000006000000000201000105060012000301000006060012000401000105" "00000000"),
                  lambda p, f: [])
    K["reqrm"] = ("reminders", lambda f, kw: d.GeckoRemindersProtocolHandler.request(f["seq"], **kw),
                  lambda f: R.reminders_request(f["seq"]), lambda p, f: _attrs(p, _sequence=f["seq"]))
    K["rmreq"] = ("reminders",
                  lambda f, kw: d.GeckoRemindersProtocolHandler.response([(d.GeckoReminderType(t), dd) for t, dd in f["rem"]], **kw),
                  lambda f: R.reminders_response(f["rem"]),
                  lambda p, f: ([] if [(int(t), dd) for t, dd in p.reminders] == [tuple(x) for x in f["rem"]]
                                and all(isinstance(t, d.GeckoReminderType) for t, _ in p.reminders)
                                else [f"reminders={p.reminders!r} expected {f['rem']!r}"]))
    K["updts"] = ("firmware", lambda f, kw: d.GeckoUpdateFirmwareProtocolHandler.request(f["seq"], **kw),
                  lambda f: R.firmware_request(f["seq"]), lambda p, f: _attrs(p, _sequence=f["seq"]))
    K["supdt"] = ("firmware", lambda f, kw: d.GeckoUpdateFirmwareProtocolHandler.response(**kw),
                  lambda f: R.firmware_response(), lambda p, f: _attrs(p, should_remove_handler=True))
    K["rferr"] = ("rferr", lambda f, kw: d.GeckoRFErrProtocolHandler.response(**kw), lambda f: R.rferr(),
                  lambda p, f: _attrs(p, total_error_count=1))
    return K


_K = None


def kinds():
    global _K
    if _K is None:
        _K = _kinds()
    return _K


_names = None


def _plat_names():
    global _names
    if _names is None:
        from geckolib.driver import GeckoStructure
        out = []
        for m in packs.module_names():
            if packs.classify(m)[0] == "pack":
                out.append(packs.real_module(m).GeckoPack(GeckoStructure(None)).name)
        _names = out
    return _names


# ------------------------------------------------------------------ strategies

_ident = st.text(alphabet="ABCDEFGHIJKLMNOPQRSTUVWXYZabcdefghijklmnopqrstuvwxyz0123456789:-_", min_size=1, max_size=36)


def _payload(max_size=255):
    piece = st.one_of(st.binary(max_size=40), st.sampled_from(TAGGY), st.sampled_from(TAGGY))
    return st.one_of(
        st.binary(max_size=max_size),
        st.lists(piece, max_size=8).map(lambda ps: b"".join(ps)[:max_size]),
    ).map(lambda b: b.hex())


def _fields(kind):
    seq = st.integers(0, 255)
    b = st.integers(0, 255)
    w = st.integers(0, 65535)
    S = {
        "ping_req": st.just({}), "ping_rsp": st.just({}), "packs": st.just({}), "supdt": st.just({}),
        "rferr": st.just({}), "wcreq": st.just({}),
        "vers_req": st.builds(lambda s: {"seq": s}, seq), "chan_req": st.builds(lambda s: {"seq": s}, seq),
        "file_req": st.builds(lambda s: {"seq": s}, seq), "getwc": st.builds(lambda s: {"seq": s}, seq), "reqwc": st.builds(lambda s: {"seq": s}, seq),
        "reqrm": st.builds(lambda s: {"seq": s}, seq), "updts": st.builds(lambda s: {"seq": s}, seq),
        "statu_full": st.builds(lambda s: {"seq": s}, seq),
        "vers_rsp": st.builds(lambda a, c, d_, e, f_, g: {"en": [a, c, d_], "co": [e, f_, g]}, w, b, b, w, b, b),
        "chan_rsp": st.builds(lambda c, s: {"ch": c, "sig": s}, b, b),
        "file_rsp": st.builds(lambda p, c, l: {"plat": p, "cv": c, "lv": l}, st.sampled_from(_plat_names()), b, b),
        "statu": st.builds(lambda s, a, l: {"seq": s, "start": a, "len": l}, seq, w, w),
        # (the length byte allows 0..255 data bytes: the upper end is generated explicitly)
        "statv": st.builds(lambda i, n, dd: {"idx": i, "next": n, "data": dd}, b, b,
                           st.one_of(_payload(255), _payload(255), st.sampled_from([200, 247, 248, 249, 254, 255]).flatmap(lambda n_: st.binary(min_size=n_, max_size=n_)).map(bytes.hex))),
        "statp": st.builds(
            lambda ch: {"changes": ch},
            st.one_of(
                st.lists(st.tuples(w, st.binary(min_size=2, max_size=2).map(bytes.hex)).map(list), max_size=40),
                # the count byte allows up to 255 records in one message
                st.sampled_from([62, 63, 64, 128, 254, 255]).flatmap(
                    lambda n_: st.lists(st.tuples(w, st.binary(min_size=2, max_size=2).map(bytes.hex)).map(list), min_size=n_, max_size=n_)),
                st.lists(st.tuples(w, st.sampled_from([b"</", b"<D", b"\n\n", b"''"]).map(bytes.hex)).map(list), max_size=6),
                # the single 1-byte change the simulator emits
                st.tuples(w, st.binary(min_size=1, max_size=1).map(bytes.hex)).map(lambda t: [list(t)]),
            )),
        "spack_key": st.builds(lambda s, p, k: {"seq": s, "pt": p, "key": k}, seq, b, b),
        "spack_set": st.one_of(
            st.builds(lambda s, p, c, l, po, v: {"seq": s, "pt": p, "cv": c, "lv": l, "pos": po, "len": 1, "val": v}, seq, b, b, b, w, b),
            st.builds(lambda s, p, c, l, po, v: {"seq": s, "pt": p, "cv": c, "lv": l, "pos": po, "len": 2, "val": v}, seq, b, b, b, w, w)),
        "wcget": st.builds(lambda m: {"mode": m}, b),
        "setwc": st.builds(lambda s, m: {"seq": s, "mode": m}, seq, b),
        "rmreq": st.builds(lambda r: {"rem": r},
                           st.lists(st.tuples(st.integers(0, 6), st.integers(-32768, 32767)).map(list), max_size=12)),
    }
    return S[kind]


def strategy(tier):
    ks = sorted(kinds())
    msg = st.sampled_from(ks).flatmap(
        lambda k: st.builds(
            lambda f, src, dst, ip, port: {"k": "msg", "kind": k, "f": f, "src": src, "dst": dst, "addr": [ip, port]},
            _fields(k), _ident.map(lambda s: "IOS" + s), _ident.map(lambda s: "SPA" + s),
            st.sampled_from(["10.1.2.3", "192.168.1.77", "255.255.255.255"]), st.integers(1, 65535)))
    name = st.one_of(
        st.text(alphabet=st.characters(min_codepoint=32, max_codepoint=255), max_size=30),
        st.text(alphabet="ab|é ü<>/", max_size=12),
        st.sampled_from(["My Spa", "A|B", "|", "Spa|", "||x", "Café Spä", "</HELLO>", "1", "IOS"]),
    )
    hello = st.one_of(
        st.builds(lambda i, n: {"k": "hello_rsp", "id": "SPA" + i, "name": n}, _ident, name),
        st.builds(lambda i, p: {"k": "hello_client", "id": p + i}, _ident, st.sampled_from(["IOS", "AND"])),
        st.just({"k": "hello_bcast"}),
    )
    # "more": further frames, from other identifier pairs, offered to the SAME long-lived listener afterwards (a spa-side listener
    # serves several clients; a client may come back under a new identifier)
    more = st.lists(st.tuples(_ident.map(lambda s_: "AND" + s_), _ident.map(lambda s_: "SPA" + s_), _payload(60)).map(list), max_size=3)
    framing = st.builds(lambda src, dst, c, m: dict({"k": "frame", "src": "IOS" + src, "dst": "SPA" + dst, "content": c}, **({"more": m} if m else {})),
                        _ident, _ident, _payload(600), more)
    seqs = st.sampled_from(sorted(SEQ_FAMILIES)).flatmap(
        lambda fam: st.lists(
            st.sampled_from(SEQ_FAMILIES[fam]).flatmap(lambda k: st.tuples(st.just(k), _fields(k)).map(list)),
            min_size=2, max_size=5).map(lambda ms: {"k": "msgseq", "family": fam, "msgs": ms}))
    e2e = st.builds(lambda ch: {"k": "e2e", "changes": ch},
                    st.lists(st.tuples(st.integers(0, 1022), st.binary(min_size=2, max_size=2).map(bytes.hex)).map(list), min_size=1, max_size=4))
    # the same through the blocking client's real receive path: several messages in a row on one connection, some of them long
    rec = st.tuples(st.integers(0, 1022), st.binary(min_size=2, max_size=2).map(bytes.hex)).map(list)
    e2e_thr = st.builds(lambda ms: {"k": "e2e_thr", "msgs": ms},
                        st.lists(st.one_of(st.lists(rec, min_size=1, max_size=4), st.lists(rec, min_size=1, max_size=4), st.lists(rec, min_size=50, max_size=120)),
                                 min_size=1, max_size=4))
    simreport = st.builds(lambda cl, p_, l_, v_: {"k": "simreport", "clients": cl, "pos": p_, "len": l_, "val": v_},
                          st.lists(_ident, min_size=1, max_size=4, unique=True), st.integers(0, 1021), st.integers(0, 1), st.integers(0, 65535))
    cheap = st.one_of(msg, msg, msg, msg, msg, msg, hello, hello, framing, framing, seqs, seqs, simreport)
    return st.integers(0, 39).flatmap(lambda i: e2e_thr if i == 0 else (e2e if i == 1 else cheap))


# messages that one long-lived handler instance decodes one after the other in real use
# (spa-side request handlers, and the per-transfer STATV decoder)
SEQ_FAMILIES = {
    "version": ["vers_req"], "channel": ["chan_req"], "configfile": ["file_req"],
    "status": ["statu", "statu_full"], "status-segments": ["statv"], "pack": ["spack_key", "spack_set"],
    "watercare": ["getwc", "reqwc"], "reminders": ["reqrm"], "firmware": ["updts"], "ping": ["ping_rsp", "ping_req"],
}


def _rx_only():
    """messages the library decodes but has no constructor for (reference-built only; used in decode sequences)"""
    return {"reqwc": ("watercare", None, lambda f: b"REQWC" + R.u8(f["seq"]), lambda p, f: _attrs(p, _sequence=f["seq"], schedule=True))}


def _msgseq(res, case):
    fam = case["family"]
    if fam not in SEQ_FAMILIES:
        raise InvalidCase(case)
    cls = _families()[fam.split("-")[0]][0]
    peer = _new(cls)
    for n, (kind, f) in enumerate(case["msgs"]):
        if kind not in SEQ_FAMILIES[fam]:
            raise InvalidCase(case)
        _, build, ref, dec = kinds().get(kind) or _rx_only()[kind]
        try:
            content = ref(f)
        except (ValueError, KeyError):
            raise InvalidCase(case)
        try:
            if not peer.can_handle(content, ("1.1.1.1", 10022)):
                res.fail(f"C04|seq-not-claimed|{kind}", f"message #{n} {content[:40]!r}")
                return
            peer.handle(content, ("1.1.1.1", 10022, b"a", b"b"))
            bad = dec(peer, f)
        except Exception as exc:  # noqa
            res.fail(f"C04|decode-raised|seq|{kind}", f"message #{n} {content[:60]!r}: {exc!r}")
            return
        if bad and kind != "ping_req":
            prev = case["msgs"][n - 1][0] if n else None
            res.fail(f"C04|decode|seq|{kind}|after-{prev}",
                     f"one {cls.__name__} decoding message #{n} {content[:60]!r} after {prev}: " + "; ".join(bad))
            return
    res.nontrivial = len({k for k, _ in case["msgs"]}) > 1 or len(case["msgs"]) > 2
    res.label("msgseq")


_FILES_CASES = {}


def enumerated(tier):
    names = _plat_names()
    step = 1 if tier == "thorough" else 17
    vs = list(range(0, 256, step)) + ([255] if step != 1 else [])
    n = len(names) * len(vs)

    def fn(i):
        return {"k": "files", "plat": names[i // len(vs)], "cv": vs[i % len(vs)], "lvs": vs}

    return n, fn


# ------------------------------------------------------------------ oracle


def _check_claims(res, kind, family, content):
    fams = _families()
    claimed = []
    for fam, classes in fams.items():
        for cls in classes:
            try:
                if _new(cls).can_handle(content, ("10.0.0.1", 10022)):
                    claimed.append((fam, cls.__name__))
            except Exception as exc:  # noqa
                res.fail(f"C04|can_handle-raised|{cls.__name__}", f"{content[:60]!r}: {exc!r}")
    fams_claiming = sorted({f for f, _ in claimed})
    if fams_claiming != [family]:
        verbname = content[:5].decode("latin-1")
        res.fail(f"C04|claimed-by|{verbname}|{','.join(fams_claiming) or 'nobody'}",
                 f"{kind}: body {content[:40]!r} is accepted by {claimed or 'no standard handler'}, expected exactly the {family} handler")
    else:
        # every class of the family must accept it
        if len(claimed) != len(fams[family]):
            res.fail(f"C04|family-incomplete|{family}", f"{kind}: only {claimed}")
    return fams_claiming == [family]


def _has_special(b: bytes):
    return any(t in b for t in (b"\n", b"'", b'"', b"<", b">", b"|", b"\\"))


def _msg(res, case):
    d = _lib()
    kind = case["kind"]
    if kind not in kinds():
        raise InvalidCase(case)
    family, build, ref, dec = kinds()[kind]
    f = case["f"]
    src, dst = case["src"].encode("latin-1"), case["dst"].encode("latin-1")
    addr = tuple(case["addr"])
    # we are `src`, the peer is `dst`: parms = (ip, port, peer id, own id)
    parms = (addr[0], addr[1], dst, src)
    try:
        h = build(f, {"parms": parms})
        content = h._content
        wire = h.send_bytes
    except Exception as exc:  # noqa
        res.fail(f"C04|build-raised|{kind}", f"{f}: {exc!r}")
        return
    try:
        exp = ref(f)
    except (ValueError, KeyError):
        raise InvalidCase(case)
    if content != exp:
        res.fail(f"C04|layout|{kind}", f"{kind} {f}: library builds {content!r}, in.touch2 layout is {exp!r}")
        return
    if wire != R.frame(src, dst, exp):
        res.fail(f"C04|framing-layout|{kind}", f"{wire!r} vs {R.frame(src, dst, exp)!r}")
        return
    # (2) through the real un-framer at the peer
    got = []

    class Peer:
        def dispatch_recevied_data(self, c, p):
            got.append((c, p))

    ph = d.GeckoPacketProtocolHandler(socket=Peer())
    if not ph.can_handle(wire, addr):
        res.fail("C04|packet-not-claimed", f"{wire[:80]!r}")
        return
    ph.handle(wire, addr)
    want = (content, (addr[0], addr[1], src, dst))
    if got != [want]:
        res.fail(f"C04|unframe|{'taggy' if _has_special(content) else 'plain'}",
                 f"{kind}: framed {wire!r} from {addr} un-frames to {got!r}, expected {want!r}")
        return
    # (2b) the same datagram through the blocking stack's own dispatcher (real GeckoUdpSocket.dispatch_recevied_data with the
    # real un-framer registered): the verb handler behind it must be offered exactly the content
    seen = []

    class _Rec(d.GeckoUdpProtocolHandler):
        def can_handle(self, received_bytes, sender):
            return not received_bytes.startswith(b"<PACKT>")

        def handle(self, received_bytes, sender):
            seen.append((received_bytes, tuple(sender)))

    rsock = d.GeckoUdpSocket()
    rsock.add_receive_handler(d.GeckoPacketProtocolHandler(socket=rsock))
    rsock.add_receive_handler(_Rec())
    rsock.dispatch_recevied_data(wire, addr)
    if seen != [want]:
        res.fail(f"C04|socket-dispatch|{'taggy' if _has_special(content) else 'plain'}",
                 f"{kind}: {wire!r} through GeckoUdpSocket.dispatch_recevied_data reaches the verb handler as {seen!r}, expected {want!r}")
        return
    # (3) claimed by exactly its verb
    ok = _check_claims(res, kind, family, content)
    # (4) decodes to the inputs on a fresh peer handler of every class of the family
    if ok:
        for cls in _families()[family]:
            peer = _new(cls)
            try:
                if dec is _dec_partial:
                    bad = dec(peer, f)
                else:
                    peer.handle(content, got[0][1])
                    bad = dec(peer, f)
            except Exception as exc:  # noqa
                res.fail(f"C04|decode-raised|{kind}", f"{cls.__name__}.handle({content[:60]!r}): {exc!r}")
                continue
            if bad:
                res.fail(f"C04|decode|{kind}", f"{cls.__name__} decoding {content[:60]!r}: " + "; ".join(bad))
    # (5) reply built from the received packet goes back with identifiers swapped
    reply = d.GeckoPingProtocolHandler.response(parms=ph.parms)
    back = R.unframe(reply.send_bytes)
    if back is None or back[0] != dst or back[1] != src:
        res.fail("C04|reply-identifiers", f"reply to {src!r}->{dst!r} is {reply.send_bytes!r}")
    if tuple(ph.parms[:2]) != addr:
        res.fail("C04|reply-address", f"reply parms {ph.parms!r} for sender {addr!r}")
    res.nontrivial = _has_special(content[5:]) or kind in ("statp", "rmreq") and len(content) > 9
    res.label("msg-" + family)


def _hello(res, case):
    d = _lib()
    H = d.GeckoHelloProtocolHandler
    k = case["k"]
    if k == "hello_bcast":
        wire, exp = H.broadcast().send_bytes, R.hello(b"1")
    elif k == "hello_client":
        cid = case["id"].encode("latin-1")
        wire, exp = H.client(cid).send_bytes, R.hello(cid)
    else:
        sid = case["id"].encode("latin-1")
        try:
            nb = case["name"].encode("latin-1")
        except UnicodeEncodeError:
            raise InvalidCase(case)
        wire, exp = H.response(sid, case["name"]).send_bytes, R.hello_reply(sid, nb)
    if wire != exp:
        res.fail(f"C04|layout|{k}", f"{wire!r} vs {exp!r}")
        return
    peer = H.broadcast()
    if not peer.can_handle(wire, ("1.2.3.4", 10022)):
        res.fail(f"C04|hello-not-claimed|{k}", f"{wire!r}")
        return
    if d.GeckoPacketProtocolHandler().can_handle(wire, ("1.2.3.4", 10022)):
        res.fail("C04|hello-claimed-by-packet", f"{wire!r}")
    try:
        peer.handle(wire, ("1.2.3.4", 10022))
    except Exception as exc:  # noqa
        cls = "separator-in-name" if k == "hello_rsp" and "|" in case["name"] else "plain"
        res.fail(f"C04|decode-raised|{k}|{cls}", f"handle({wire!r}): {exc!r}")
        return
    if k == "hello_bcast":
        bad = _attrs(peer, was_broadcast_discovery=True)
    elif k == "hello_client":
        bad = _attrs(peer, was_broadcast_discovery=False, _client_identifier=case["id"].encode("latin-1"))
    else:
        bad = _attrs(peer, was_broadcast_discovery=False, _spa_identifier=case["id"].encode("latin-1"), _spa_name=case["name"])
        res.nontrivial = ("|" in case["name"]) or any(ord(c) > 127 for c in case["name"])
    if bad:
        res.fail(f"C04|decode|{k}", f"{wire!r}: " + "; ".join(bad))
    res.label(k)


def _frame(res, case):
    d = _lib()
    src, dst = case["src"].encode("latin-1"), case["dst"].encode("latin-1")
    content = bytes.fromhex(case["content"])
    h = d.GeckoPacketProtocolHandler(content=content, parms=("9.9.9.9", 10022, dst, src))
    wire = h.send_bytes
    if wire != R.frame(src, dst, content):
        res.fail("C04|framing-layout|raw", f"{wire!r}")
        return
    ph = d.GeckoPacketProtocolHandler()
    ph.handle(wire, ("9.9.9.9", 10022))
    if ph.packet_content != content or ph.parms != ("9.9.9.9", 10022, src, dst):
        res.fail(f"C04|unframe|{'taggy' if _has_special(content) else 'plain'}",
                 f"framed {wire!r} un-frames to content={ph.packet_content!r} parms={ph.parms!r}")
    for n, (src2, dst2, c2) in enumerate(case.get("more", [])):
        s2, d2, content2 = src2.encode("latin-1"), dst2.encode("latin-1"), bytes.fromhex(c2)
        wire2 = R.frame(s2, d2, content2)
        if not ph.can_handle(wire2, ("9.9.9.8", 10022)):
            res.fail("C04|unframe|listener-refuses-other-pair", f"a listener that has un-framed a packet of pair ({src!r},{dst!r}) refuses the well-formed packet "
                     f"{wire2[:80]!r} of pair ({s2!r},{d2!r})")
            break
        ph.handle(wire2, ("9.9.9.8", 10022))
        if ph.packet_content != content2 or ph.parms != ("9.9.9.8", 10022, s2, d2):
            res.fail("C04|unframe|sequence", f"frame #{n + 2} on one listener un-frames to content={ph.packet_content!r} parms={ph.parms!r}")
            break
    res.nontrivial = _has_special(content) or bool(case.get("more"))
    res.label("frame")
    if case.get("more"):
        res.label("frame-sequence-on-one-listener")


def _files(res, case):
    d = _lib()
    plat, cv = case["plat"], case["cv"]
    n = 0
    for lv in case["lvs"]:
        h = d.GeckoConfigFileProtocolHandler.response(plat, cv, lv, parms=(1, 2, b"a", b"b"))
        exp = R.configfile_response(plat, cv, lv)
        n += 1
        if h._content != exp:
            res.fail("C04|layout|file_rsp", f"{plat} {cv} {lv}: {h._content!r} vs {exp!r}")
            break
        p = d.GeckoConfigFileProtocolHandler()
        try:
            p.handle(exp, None)
        except Exception as exc:  # noqa
            res.fail("C04|decode-raised|file_rsp", f"{exp!r}: {exc!r}")
            break
        bad = _attrs(p, plateform_key=plat, config_version=cv, log_version=lv)
        if bad:
            res.fail("C04|decode|file_rsp", f"{exp!r}: " + "; ".join(bad))
            break
    res.nontrivial = True
    res.key = ["files", plat, cv]
    res.labels.append(("files_replies_checked", n))


def _e2e(res, case):
    """a framed unsolicited partial update through a really connected async client: the acknowledgement it puts on the wire is
    addressed back to the spa with the identifiers swapped (the un-framer's parms reach the reply builder intact)"""
    from .. import clients, vworld

    changes = [(int(p_), bytes.fromhex(h_)) for p_, h_ in case["changes"]]
    if any(p_ + 2 > 1024 or len(d_) != 2 for p_, d_ in changes):
        raise InvalidCase(case)
    W = vworld.World()
    sim = vworld.make_simulator()
    peer = W.add_peer(sim)
    out = {}

    async def main(W):
        spa, tm, ev = await clients.connect_async_spa(W, peer)
        try:
            w0 = len(W.wire)
            W.inject(W.transports[-1], R.frame(sim.vp_identifier, clients.CLIENT_ID, R.partial_update(changes)), peer.addr)
            await W.sleep(1.0)
            out["acks"] = [w[4] for w in W.wire[w0:] if w[1] == "c2s" and b"STATQ" in w[4]]
            out["dead"] = [t.get_name() for t in tm._tasks if t.done() and not t.cancelled() and t.exception() is not None]
            out["block"] = spa.struct.status_block
        finally:
            await spa.disconnect()
            await clients.shutdown(tm)

    W.run(main)
    if out.get("dead"):
        res.fail("C04|e2e|consumer-died", f"after a framed STATP: tasks {out['dead']} ended with an exception")
    if len(out["acks"]) != 1:
        res.fail("C04|e2e|ack-count", f"{len(out['acks'])} acknowledgements on the wire for one partial update")
    else:
        got = R.unframe(out["acks"][0])
        if got is None or (got[0], got[1]) != (clients.CLIENT_ID, sim.vp_identifier) or got[2][:5] != b"STATQ":
            res.fail("C04|e2e|ack-framing", f"acknowledgement on the wire: {out['acks'][0]!r}")
    for p_, d_ in changes:
        pass
    res.nontrivial = len(changes) >= 2
    res.label("e2e-async")


def _e2e_thr(res, case):
    """framed partial updates through the blocking client's real receive path (socket read with the library's buffer size,
    un-framing, dispatch, decode on the connection's long-lived handler): each message must be applied as exactly its own records,
    in order, and acknowledged with swapped identifiers"""
    from .. import stepped, vworld
    from ..runner import SetupFailed

    msgs = [[(int(p_), bytes.fromhex(h_)) for p_, h_ in m] for m in case["msgs"]]
    if any(p_ + 2 > 1024 or len(d_) != 2 for m in msgs for p_, d_ in m) or any(not 1 <= len(m) <= 255 for m in msgs):
        raise InvalidCase(case)
    sim = vworld.make_simulator()
    eng = stepped.Engine()
    with eng.patched():
        spa, ok = stepped.connect_threaded_spa(eng, sim)
        if not ok:
            raise SetupFailed("threaded handshake failed fault-free")
        applied = []
        orig = spa.struct.replace_status_block_segment

        def rec_replace(pos, data):
            applied.append((pos, bytes(data)))
            return orig(pos, data)
        spa.struct.replace_status_block_segment = rec_replace
        q = stepped.quiescent(eng, spa)
        for n, m in enumerate(msgs):
            del applied[:]
            s0 = len(eng.sent)
            dg = R.frame(stepped.SPA_ID, stepped.CLIENT_ID, R.partial_update(m))
            eng.deliver(dg, stepped.SPA_ADDR)
            if not stepped.run_until(eng, q):
                raise SetupFailed("threaded client not quiescent")
            t_end = eng.vt.t + 0.5
            stepped.run_until(eng, lambda: eng.vt.t >= t_end)
            size = "long" if len(dg) > 300 else "short"
            if applied != m:
                res.fail(f"C04|e2e-threaded|decode|{size}|{'first' if n == 0 else 'later'}-message",
                         f"message #{n} ({len(m)} records, {len(dg)} bytes on the wire) was applied as {applied[:6]}{'...' if len(applied) > 6 else ''} "
                         f"({len(applied)} records), its records are {m[:6]}{'...' if len(m) > 6 else ''}")
            acks = [d for _, d, _ in eng.sent[s0:] if b"<DATAS>STATQ" in d]
            if len(acks) != 1:
                res.fail(f"C04|e2e-threaded|ack-count|{size}", f"message #{n} ({len(dg)} bytes): {len(acks)} acknowledgements")
            else:
                got = R.unframe(acks[0])
                if got is None or (got[0], got[1]) != (stepped.CLIENT_ID, stepped.SPA_ID):
                    res.fail("C04|e2e-threaded|ack-framing", f"acknowledgement on the wire: {acks[0]!r}")
    res.nontrivial = len(msgs) >= 2 or any(len(m) >= 50 for m in msgs)
    res.label("e2e-threaded")
    if any(len(m) >= 50 for m in msgs):
        res.label("e2e-threaded-long-datagram")


def _simreport(res, case):
    """the bundled spa simulator reports a change to every client it knows: each report must be framed for THAT client (its identifier
    as destination, the spa's as source) and go to that client's address"""
    from .. import vworld

    sim = vworld.make_simulator()
    clients_ = []
    for n, ident in enumerate(case["clients"]):
        cid = ("IOS" + ident).encode("latin-1")
        clients_.append((f"10.0.0.{20 + n}", 50000 + n, cid, sim.vp_identifier))
    sim._clients = list(clients_)
    sim._send_structure_change = True
    del sim._socket._send_handlers[:]
    pos, ln, val = int(case["pos"]) % 1022, 1 + int(case["len"]) % 2, int(case["val"]) % (256 if int(case["len"]) % 2 == 0 else 65536)
    try:
        sim._on_set_value(pos, ln, val)
    finally:
        sim._send_structure_change = False
    out = list(sim._socket._send_handlers)
    del sim._socket._send_handlers[:]
    if len(out) != len(clients_):
        res.fail("C04|simreport|count", f"{len(out)} reports queued for {len(clients_)} clients")
        return
    body = R.partial_update([(pos, val.to_bytes(ln, "big"))])
    for (h, dest), cl in zip(out, clients_):
        got = R.unframe(h.send_bytes)
        if got is None or got[0] != sim.vp_identifier or got[1] != cl[2] or got[2] != body:
            res.fail("C04|simreport|framing", f"report for client {cl[2]!r} at {cl[:2]} is framed {None if got is None else (got[0], got[1])} with content "
                     f"{None if got is None else got[2]!r}; expected ({sim.vp_identifier!r}, {cl[2]!r}) {body!r}")
            break
        if tuple(dest[:2]) != cl[:2]:
            res.fail("C04|simreport|destination", f"report for {cl[2]!r} goes to {dest[:2]}, the client is at {cl[:2]}")
            break
    res.nontrivial = len(clients_) >= 2
    res.label("simulator-change-report")


def run_case(case) -> Result:
    res = Result()
    k = case.get("k")
    if k == "simreport":
        _simreport(res, case)
        return res
    if k == "e2e_thr":
        _e2e_thr(res, case)
        return res
    if k == "e2e":
        _e2e(res, case)
        return res
    if k == "msg":
        _msg(res, case)
    elif k in ("hello_rsp", "hello_client", "hello_bcast"):
        _hello(res, case)
    elif k == "frame":
        _frame(res, case)
    elif k == "files":
        _files(res, case)
    elif k == "msgseq":
        _msgseq(res, case)
    else:
        raise InvalidCase(case)
    return res
