"""C19  Snapshot capture/replay round-trip and loadability of shipped snapshots.

(A) writer o parser: the real GeckoShell.do_snapshot / version_strings run on a stub shell whose
    spa carries generated values; the library's own log records are captured with the shell's
    file format, written to a file and parsed back by GeckoSnapshot.parse_log_file.
(B) traffic log: the blocking client's real receive path (GeckoUdpSocket on the stepped engine)
    fetches a generated (start,length) range - or runs the complete handshake - from the
    in-process simulator serving a generated block, with the library's own DEBUG log captured
    in the shell's file format; the parsed log must reassemble to the transferred bytes.
(C) every snapshot shipped under tests/snapshots parses, loads into the simulator, and a client
    (async on the virtual loop, blocking on the stepped engine) connected to it ends with the
    identical block.
"""
import logging
import os
import tempfile
import types

from hypothesis import strategies as st

from .. import clients, packs, stepped, vworld
from ..runner import HarnessError, InvalidCase, Result, SetupFailed, classify_exception

ID = "C19"
LEVEL = "exploration"
RULE = (
    "generated: (A) block (pseudo-random, with generated patches of quote / backslash / bracket / newline / tag-like and "
    "header-like text at generated offsets), version tuples (build 0..65535, major/minor 0..255), pack label from the shipped "
    "PackType vocabulary, pack id/rev/rel, cfg/log versions 0..255, snapshot name (printable incl. parentheses, 'Snapshot (', "
    "header-like text); (B) the same block generator x (start,length) biased to segment boundaries, or the complete handshake; "
    "enumerated: (C) every snapshot of every shipped file x {async, blocking} client. Non-trivial = block containing both quote "
    "characters, a backslash next to a quote, or brackets; or a name containing header-like text; distinct by canonical case."
)
ASSUMPTIONS = [
    "versions parsed from a raw connection log are judged only when the transferred block does not itself spell the format's header lines ('... version N', 'Got software version', 'PackType', ...)",
    "the log file format is the one GeckoCmd installs for its file logger: '%(asctime)s %(name)s %(levelname)s %(message)s'",
    "the snapshot name itself is not required to survive (the property lists bytes, pack type, firmware and cfg/log versions)",
    "a traffic log starts at the library's 'Starting spa connection handshake...' line; for partial transfers the harness logs that line itself",
    "transferred blocks do not spell the parser's own line formats: the keyword 'Snapshot' (parse_log_file splits a log there, by design) or a complete ['0x..', ...] data line",
]
BUDGET = {
    "quick": {"workers": 16, "examples": 6400},
    "thorough": {"workers": 16, "examples": 96000},
}

FILE_FORMAT = "%(asctime)s %(name)s %(levelname)s %(message)s"
SPICE = [b"'", b'"', b"\\", b"\\'", b'\'"', b"[]", b"[", b"]", b"[\x00\x01]", b"['0x41']", b"\n", b"\r\n", b"\t", b"</DATAS>", b"STATV",
         b"Config version 250", b"Log version 251", b"Spa pack inXM 1 v2.3", b"Snapshot (x)", b"INFO", b"\\x27", b"b'", b"\xff\xfe", b" from ("]

_LABELS = None


def pack_labels():
    global _LABELS
    if _LABELS is None:
        labs = set()
        for plat, cv, lv in packs.combos():
            it = packs.pair(plat, cv, lv).items.get("PackType")
            if it is not None and it.labels:
                labs.update(x for x in it.labels if x)
        _LABELS = sorted(labs)
    return _LABELS


def make_block(spec, traffic=False):
    b = bytearray(clients.prng("c19", spec.get("seed", 0), n=1024))
    if spec.get("zero"):
        b = bytearray(1024)
    for off, si in spec.get("spice", []):
        s = SPICE[int(si) % len(SPICE)]
        if traffic and b"Snapshot" in s:
            s = b"Snapsh0t ('x\")"   # a traffic log is split at lines containing the parser's own keyword 'Snapshot' (see ASSUMPTIONS)
        if traffic and s == b"['0x41']":
            s = b"['0x41\"]"        # ... and a block that spells a complete snapshot data line is a snapshot data line to the parser
        off = int(off) % (1024 - len(s) + 1)
        b[off:off + len(s)] = s
    if traffic:
        # overlapping pieces can re-assemble what was just excluded: break every remaining spelling of the parser's own line formats
        import re as _re
        while True:
            m = _re.search(rb"\['0x[0-9A-Fa-f]+'(?:, *'0x[0-9A-Fa-f]+')*\]", bytes(b)) or _re.search(rb"Snapshot", bytes(b))
            if m is None:
                break
            b[m.end() - 1] = ord(")") if b[m.end() - 1] == ord("]") else ord("0")
    return bytes(b)


def _block_strategy():
    return st.builds(lambda seed, zero, sp: {"seed": seed, "zero": zero, "spice": sp},
                     st.integers(0, 10**6), st.booleans(),
                     st.lists(st.tuples(st.integers(0, 1023), st.integers(0, len(SPICE) - 1)).map(list), max_size=10))


def strategy(tier):
    name_bits = st.sampled_from(["Heating", "a (b)", ")(", "Snapshot (", "Config version 7", "Log version 8", "intouch version EN 1 v2.3",
                                 "['0x1', '0x2']", "INFO", "Spa pack inYT 9 v9.9", "x' \"y", "\\", "é", "", " "])
    name = st.lists(name_bits, max_size=3).map(" ".join)
    ver = st.tuples(st.integers(0, 65535), st.integers(0, 255), st.integers(0, 255)).map(list)
    a = st.builds(lambda blk, en, co, lab, pid, rev, rel, cv, lv, nm, cn, pt: {
        "part": "A", "block": blk, "en": en, "co": co, "label": lab, "pack_id": pid, "rev": rev, "rel": rel,
        "cv": cv, "lv": lv, "name": nm, "config_number": cn, "pack_type": pt, "reuse": bool((cn + pt) % 2)},
        _block_strategy(), ver, ver, st.integers(0, 200), st.integers(0, 65535), st.integers(0, 255), st.integers(0, 255),
        st.integers(0, 255), st.integers(0, 255), name, st.integers(0, 255), st.integers(0, 255))
    length = st.one_of(st.integers(1, 1024), st.sampled_from([1, 38, 39, 40, 78, 117, 273, 1024]))
    ver8 = st.tuples(st.integers(0, 65535), st.integers(0, 255), st.integers(0, 255)).map(list)
    fault = st.sampled_from([None, None, None, "lose", "lose", "rel"])
    b = st.builds(lambda blk, s, ln, full, en, co, eager, seg, fl, fa: dict(
                      {"part": "B", "block": blk, "start": s, "len": ln, "handshake": full}, **({"en": en, "co": co} if full else {}),
                      **({"eager": eager} if full and eager else {}), **({"seg": seg} if not full and seg != 39 else {}),
                      **({"lose_seg": 1 + fa % 25} if full and fl == "lose" else {}), **({"rel": [[0.9, 0.8, 0.7][fa % 3], fa]} if full and fl == "rel" else {})),
                  _block_strategy(), st.one_of(st.just(0), st.integers(0, 1023)), length, st.sampled_from([False, False, False, True]), ver8, ver8,
                  st.sampled_from([0, 0, 3, 10, 40]), st.sampled_from([39, 39, 64, 100, 160, 255]), fault, st.integers(0, 10**6))
    return st.one_of(a, b, b)


_SHIPPED = None


def _shipped():
    global _SHIPPED
    if _SHIPPED is None:
        out = []
        for fi, p in enumerate(packs.snapshot_files()):
            n = len(vworld.load_snapshot(p))
            for si in range(max(n, 1)):
                out.append((fi, si))
        _SHIPPED = out
    return _SHIPPED


def enumerated(tier):
    sh = _shipped()

    def fn(i):
        fi, si = sh[i // 2]
        return {"part": "C", "file": fi, "snap": si, "client": "async" if i % 2 == 0 else "sync"}

    return len(sh) * 2, fn


def coverage_extra(tier):
    return {"shipped_snapshot_files": len(packs.snapshot_files()), "shipped_snapshots": len(_shipped()),
            "exhaustive_dimension": "part C: every shipped snapshot x both clients"}


# ------------------------------------------------------------------ log capture


class _Capture:
    """captures the library's own log records in the shell's file format"""

    def __init__(self):
        self.lines = []
        self._fmt = logging.Formatter(FILE_FORMAT)

    def __enter__(self):
        cap = self

        class H(logging.Handler):
            def emit(self, record):
                cap.lines.append(cap._fmt.format(record))

        self.h = H(level=logging.DEBUG)
        self.root = logging.getLogger()
        self.saved_level = self.root.level
        self.saved_disable = logging.root.manager.disable
        logging.disable(logging.NOTSET)
        self.root.setLevel(logging.DEBUG)
        self.root.addHandler(self.h)
        return self

    def __exit__(self, *a):
        self.root.removeHandler(self.h)
        self.root.setLevel(self.saved_level)
        logging.disable(self.saved_disable)

    def text(self):
        return "".join(line + "\n" for line in self.lines)


def _parse_text(res, text, what):
    from geckolib.utils.snapshot import GeckoSnapshot

    fd, path = tempfile.mkstemp(prefix="vp-c19-", suffix=".log")
    try:
        with os.fdopen(fd, "w", encoding="utf-8", newline="") as f:
            f.write(text)
        try:
            return GeckoSnapshot.parse_log_file(path)
        except Exception as exc:  # noqa
            is_lib, site = classify_exception(exc)
            if not is_lib:
                raise
            res.fail(f"C19|{what}|parse-raises|{site}", f"parse_log_file raised {type(exc).__name__}: {exc}")
            return None
    finally:
        os.unlink(path)


# ------------------------------------------------------------------ part A


def _part_a(res, case):
    from geckolib.utils.shell import GeckoShell

    labels = pack_labels()
    label = labels[int(case["label"]) % len(labels)]
    block = make_block(case["block"])
    en, co = [int(x) for x in case["en"]], [int(x) for x in case["co"]]
    name = str(case.get("name", ""))
    if "\n" in name or "\r" in name:
        raise InvalidCase(case)
    spa = types.SimpleNamespace(
        revision="33.00",
        intouch_version_en="{0} v{1}.{2}".format(*en),      # as GeckoSpa._on_version_received formats it
        intouch_version_co="{0} v{1}.{2}".format(*co),
        pack=label,
        version="{0} v{1}.{2}".format(int(case["pack_id"]), int(case["rev"]), int(case["rel"])),  # as _final_connect formats it
        config_number=int(case["config_number"]), config_version=int(case["cv"]), log_version=int(case["lv"]),
        pack_type=int(case["pack_type"]), struct=types.SimpleNamespace(status_block=block))

    class StubShell:
        version_strings = GeckoShell.version_strings

        def __init__(self):
            self.facade = types.SimpleNamespace(spa=spa)

    shell = StubShell()
    if case.get("reuse"):
        # the same shell session managed another spa before and took a snapshot of it (manage -> snapshot -> manage -> snapshot)
        other = types.SimpleNamespace(**dict(vars(spa), intouch_version_en="{0} v{1}.{2}".format(en[0] ^ 1, en[1], (en[2] + 1) % 256),
                                             intouch_version_co="{0} v{1}.{2}".format(co[0] ^ 1, co[1], (co[2] + 1) % 256), pack=labels[(int(case["label"]) + 1) % len(labels)],
                                             config_version=(int(case["cv"]) + 1) % 256, log_version=(int(case["lv"]) + 3) % 256,
                                             struct=types.SimpleNamespace(status_block=bytes(1024))))
        shell.facade = types.SimpleNamespace(spa=other)
        with _Capture():
            GeckoShell.do_snapshot(shell, "previous spa")
        shell.facade = types.SimpleNamespace(spa=spa)
    with _Capture() as cap:
        GeckoShell.do_snapshot(shell, name)
    snaps = _parse_text(res, cap.text(), "snapshot")
    if snaps is None:
        return block, name
    if len(snaps) != 1:
        res.fail("C19|snapshot|count", f"{len(snaps)} snapshots parsed from one snapshot command (name {name!r})")
        return block, name
    s = snaps[0]

    def get(what, fn):
        try:
            return True, fn()
        except Exception as exc:  # noqa
            is_lib, site = classify_exception(exc)
            if not is_lib:
                raise
            res.fail(f"C19|snapshot|{what}|raises", f"reading {what} raised {type(exc).__name__}: {exc} (name {name!r})")
            return False, None

    for what, fn, exp in (("bytes", lambda: s.bytes, block), ("packtype", lambda: s.packtype, label),
                          ("intouch_EN", lambda: s.intouch_EN, tuple(en)), ("intouch_CO", lambda: s.intouch_CO, tuple(co)),
                          ("config_version", lambda: s.config_version, int(case["cv"])), ("log_version", lambda: s.log_version, int(case["lv"])),
                          ("spapack", lambda: s.spapack, f"{label} {int(case['pack_id'])} v{int(case['rev'])}.{int(case['rel'])}")):
        ok, got = get(what, fn)
        if ok and got != exp:
            if what == "bytes":
                diff = [i for i in range(min(len(got), len(exp))) if got[i] != exp[i]][:5]
                msg = f"{len(got)} bytes parsed, {len(exp)} written, first differences at {diff}"
            else:
                msg = f"parsed {got!r}, written {exp!r}"
            res.fail(f"C19|snapshot|{what}", f"{msg} (name {name!r})")
    return block, name


# ------------------------------------------------------------------ part B


def _fake_snapshot(block, label="inXM", cv=9, lv=9, en=(88, 15, 0), co=(89, 11, 0)):
    from geckolib.utils.snapshot import GeckoSnapshot

    s = GeckoSnapshot()
    s._pack_type = label
    s._config_version, s._log_version = str(cv), str(lv)
    s._intouch_EN, s._intouch_CO = tuple(str(x) for x in en), tuple(str(x) for x in co)
    s._bytes = block
    return s


def _part_b(res, case):
    from geckolib.driver import GeckoPacketProtocolHandler, GeckoStatusBlockProtocolHandler, GeckoStructure, GeckoUdpSocket

    block = make_block(case["block"], traffic=True)
    start, length = int(case["start"]), int(case["len"])
    full = bool(case.get("handshake"))
    if full:
        start, length = 0, 1024
    if not (0 <= start and 1 <= length and start + length <= 1024):
        raise InvalidCase(case)
    en = [int(x) for x in case.get("en", [88, 15, 0])]
    co = [int(x) for x in case.get("co", [89, 11, 0])]
    sim = vworld.make_simulator(_fake_snapshot(block, en=en, co=co))
    sim.structure.set_status_block(block)
    seg = int(case.get("seg", 39)) if not full else 39
    if seg not in (39, 64, 100, 160, 255):
        raise InvalidCase(case)
    sim._STATUS_BLOCK_SEGMENT_SIZE = seg      # the length byte of a segment allows up to 255 data bytes
    eng = stepped.Engine()
    chain = None
    faulty = False
    import geckolib.utils.simulator as simmod
    import random as _random
    saved_random = simmod.random
    if full and case.get("lose_seg"):
        # one segment of the first status answer is lost on the way: the client's own retry must still end with the spa's block
        faulty = True
        k_lost = 1 + int(case["lose_seg"]) % 25

        class _Pol:
            done = False

            def c2s(self, data):
                return None

            def s2c(self, data, i, n):
                if not self.done and b"<DATAS>STATV" in data and i == k_lost and n > k_lost + 1:
                    self.done = True
                    return "drop"
                return None
        eng.policy = _Pol()
    if full and case.get("rel"):
        # the simulator's own reliability knob (seeded draw): it skips single segments / whole requests itself
        faulty = True
        simmod.random = _random.Random(int(case["rel"][1]))
        sim._reliability = float(case["rel"][0])
    with eng.patched():
        with _Capture() as cap:
            if full:
                try:
                    spa, ok = stepped.connect_threaded_spa(eng, sim, eager=int(case.get("eager", 0)))
                finally:
                    simmod.random = saved_random
                    sim._reliability = 1.0
                if not ok:
                    if faulty:
                        return block, 0      # a lossy handshake may fail; only a "successful" one with wrong contents is judged here
                    raise SetupFailed("fault-free blocking handshake did not complete")
            else:
                logging.getLogger("geckolib.spa").info("Starting spa connection handshake...")
                sock = eng.attach(GeckoUdpSocket())
                eng.peer = stepped.sim_peer(sim)
                sock.add_receive_handler(GeckoPacketProtocolHandler(socket=sock))
                struct = GeckoStructure(None)
                parms = (stepped.SPA_ADDR[0], stepped.SPA_ADDR[1], b"SPA01:02:03:04:05:06", b"IOSvp")
                req = GeckoStatusBlockProtocolHandler.request(sock.get_and_increment_sequence_counter(False), start, length, parms=parms)
                struct.retry_request(sock, req, parms)
                eng.max_iterations = 20000
                eng.stop_when = lambda: req not in sock._receive_handlers and not eng.inbox and not sock._send_handlers
                eng.run()
                if req in sock._receive_handlers or not struct.had_at_least_one_block:
                    raise SetupFailed("fault-free blocking transfer did not complete")
        if full:
            # the whole capture/replay chain: snapshot -> simulator -> real blocking client -> the shell's snapshot command run on
            # that client -> parser: firmware tuples, versions and bytes must be the ones the simulated spa was loaded with
            from geckolib.utils.shell import GeckoShell

            class StubShell:
                version_strings = GeckoShell.version_strings

                def __init__(self):
                    self.facade = types.SimpleNamespace(spa=spa)

            try:
                with _Capture() as cap2:
                    GeckoShell.do_snapshot(StubShell(), "replayed")
                chain = cap2.text()
            except Exception as exc:  # noqa
                is_lib, site = classify_exception(exc)
                if not is_lib:
                    raise
                res.fail(f"C19|chain|writer-raises|{site}", f"snapshot command on the connected blocking client raised {type(exc).__name__}: {exc}")
    if chain is not None:
        snaps2 = _parse_text(res, chain, "chain")
        if snaps2 is not None:
            if len(snaps2) != 1:
                res.fail("C19|chain|count", f"{len(snaps2)} snapshots parsed from the snapshot command of a connected client")
            else:
                s2 = snaps2[0]
                for what, fn, exp in (("bytes", lambda: s2.bytes, block), ("intouch_EN", lambda: s2.intouch_EN, tuple(en)),
                                      ("intouch_CO", lambda: s2.intouch_CO, tuple(co)),
                                      ("config_version", lambda: s2.config_version, 9), ("log_version", lambda: s2.log_version, 9)):
                    try:
                        got = fn()
                    except Exception as exc:  # noqa
                        got = exc
                    if got != exp:
                        res.fail(f"C19|chain|{what}", f"the simulated spa was loaded with {what} = {'<block>' if what == 'bytes' else repr(exp)}; after client connect, "
                                 f"snapshot command and parse it is {'<a different block>' if what == 'bytes' else repr(got)}")
    text = cap.text()
    nseg = sum(1 for ln in cap.lines if "<DATAS>STATV" in ln)
    if faulty:
        return block, nseg      # (a raw log that contains a repeated transfer is not required to reassemble; the chain above is)
    snaps = _parse_text(res, text, "traffic")
    if snaps is None:
        return block, nseg
    conns = [s_ for s_ in snaps if s_.name == "Connection found"]
    if len(conns) != 1:
        res.fail("C19|traffic|count", f"{len(conns)} connections (of {len(snaps)} snapshots) parsed from one connection log")
        return block, nseg
    keywords = (b"version", b"Got s", b"PackType", b"PackConf", b"SpaPackStruct")
    if full and not any(k in block for k in keywords):
        # the raw connection log also records what the handshake learnt: firmware tuples and cfg / log versions (judged when the
        # block itself does not spell the header lines of the format: in a free-text log its raw bytes would read as such a line)
        for what, fn, exp_ in (("intouch_EN", lambda: conns[0].intouch_EN, tuple(en)), ("intouch_CO", lambda: conns[0].intouch_CO, tuple(co)),
                               ("config_version", lambda: int(conns[0].config_version), int(sim.snapshot.config_version)),
                               ("log_version", lambda: int(conns[0].log_version), int(sim.snapshot.log_version))):
            try:
                got_ = fn()
            except Exception as exc:  # noqa
                got_ = f"<{type(exc).__name__}: {exc}>"
            if got_ != exp_:
                res.fail(f"C19|traffic|{what}", f"connection log of a handshake with a spa reporting {what} = {exp_!r} parses to {got_!r}")
    # the simulator serves whole 39-byte segments: the transferred bytes are the segments' payloads
    nfull = -(-length // seg)
    exp = b"".join(block[start + i * seg: start + i * seg + min(seg, 1024 - (start + i * seg))] for i in range(nfull))
    got = conns[0].bytes
    if got != exp:
        diff = [i for i in range(min(len(got), len(exp))) if got[i] != exp[i]][:5]
        res.fail("C19|traffic|bytes", f"log of a ({start},{length}) transfer in {nseg} segments reassembles to {len(got)} bytes, "
                 f"transferred {len(exp)}; first differences at {diff}")
    return block, nseg


# ------------------------------------------------------------------ part C


# number of snapshots each shipped file holds (as parsed at the audited commit; new files are simply not listed)
SHIPPED_COUNTS = {"inYJ-multicolour-2020-12-18 11_26_34.snapshot": 5}


def _part_c(res, case):
    files = packs.snapshot_files()
    try:
        path = files[int(case["file"])]
    except (IndexError, KeyError, ValueError, TypeError):
        raise InvalidCase(case)
    from geckolib.utils.snapshot import GeckoSnapshot

    try:
        snaps = GeckoSnapshot.parse_log_file(path)
    except Exception as exc:  # noqa
        res.fail("C19|shipped|parse-raises", f"{os.path.basename(path)}: {type(exc).__name__}: {exc}")
        return
    if not snaps:
        res.fail("C19|shipped|no-snapshot", f"{os.path.basename(path)} parses to no snapshot")
        return
    base = os.path.basename(path)
    want = SHIPPED_COUNTS.get(base, 1)
    if len(snaps) != want:
        res.fail("C19|shipped|snapshot-count", f"{base} parses to {len(snaps)} snapshots, it holds {want}")
    if want == 1 and int(case.get("snap", 0)) == 0:
        # the simulator's own `load <file>` command (it refuses a file that does not hold exactly one snapshot)
        sim0 = vworld.make_simulator()
        marker = object()
        sim0.snapshot = marker
        try:
            sim0.do_load(path)
        except Exception as exc:  # noqa
            res.fail("C19|shipped|load-command-raises", f"simulator `load {base}`: {type(exc).__name__}: {exc}")
        else:
            if sim0.snapshot is marker or sim0.structure.status_block != snaps[0].bytes:
                res.fail("C19|shipped|load-command", f"simulator `load {base}` did not install the file's snapshot")
    si = int(case.get("snap", 0))
    if si >= len(snaps):
        if si < want:
            return
        raise InvalidCase(case)
    snap = snaps[si]
    if len(snap.bytes) != 1024:
        res.fail("C19|shipped|block-size", f"{base}#{si} has {len(snap.bytes)} bytes")
        return
    sim = vworld.make_simulator(snap)
    if case.get("client", "async") == "async":
        # a simulator session that loads one snapshot after another: what it holds after the second load is what a fresh simulator
        # holds after loading only that one (items, their positions, the block)
        shipped = _shipped()
        pfi, psi = shipped[(int(case["file"]) * 7 + int(case.get("snap", 0)) + 3) % len(shipped)]
        prev = GeckoSnapshot.parse_log_file(files[pfi])
        if psi < len(prev) and len(prev[psi].bytes) == 1024:
            sim2 = vworld.make_simulator(prev[psi])
            try:
                sim2.set_snapshot(snap)
            except Exception as exc:  # noqa
                res.fail("C19|shipped|reload-raises", f"loading {base}#{si} into a simulator that held {os.path.basename(files[pfi])}: {type(exc).__name__}: {exc}")
            else:
                a1 = {t: (type(a).__name__, a.pos) for t, a in sim.structure.accessors.items()}
                a2 = {t: (type(a).__name__, a.pos) for t, a in sim2.structure.accessors.items()}
                if a1 != a2 or sim2.structure.status_block != snap.bytes:
                    extra = sorted(set(a2) - set(a1))[:5]
                    res.fail("C19|shipped|reload-differs", f"{base}#{si} loaded into a simulator that held {os.path.basename(files[pfi])} before: "
                             f"{len(set(a2) - set(a1))} foreign items (e.g. {extra}), {len(set(a1) - set(a2))} missing, "
                             f"{sum(1 for t in a1 if t in a2 and a1[t] != a2[t])} at other positions than after a fresh load")
    if sim.structure.status_block != snap.bytes:
        res.fail("C19|shipped|load|block", f"{base}#{si}: simulator block differs from the snapshot after load")
    for attr in ("pack_class", "config_class", "log_class"):
        if getattr(sim, attr, None) is None:
            res.fail(f"C19|shipped|load|{attr}", f"{base}#{si}: simulator has no {attr} after load (pack {snap.packtype} cfg {snap._config_version} log {snap._log_version})")
            return
    if not sim.structure.accessors:
        res.fail("C19|shipped|load|accessors", f"{base}#{si}: no accessors after load")
    kind = case.get("client", "async")
    if kind == "async":
        W = vworld.World()
        peer = W.add_peer(sim)
        out = {}

        async def main(W):
            spa, tm, ev = await clients.connect_async_spa(W, peer)
            out["block"] = spa.struct.status_block
            out["ids"] = (spa.pack_class.name.lower(), spa.config_version, spa.log_version)
            await spa.disconnect()
            await clients.shutdown(tm)

        try:
            W.run(main)
        except HarnessError as exc:
            res.fail("C19|shipped|serve|async-connect", f"{base}#{si}: {exc}")
            return
        if out["block"] != snap.bytes:
            res.fail("C19|shipped|serve|async-block", f"{base}#{si}: async client block differs from the snapshot")
        if out["ids"] != (snap.packtype.lower(), snap.config_version, snap.log_version):
            res.fail("C19|shipped|serve|async-versions", f"{base}#{si}: client sees {out['ids']}")
    else:
        eng = stepped.Engine()
        with eng.patched():
            spa, ok = stepped.connect_threaded_spa(eng, sim)
            if not ok:
                res.fail("C19|shipped|serve|sync-connect", f"{base}#{si}: blocking client did not connect")
            elif spa.struct.status_block != snap.bytes:
                res.fail("C19|shipped|serve|sync-block", f"{base}#{si}: blocking client block differs from the snapshot")


def run_case(case) -> Result:
    res = Result()
    part = case.get("part")
    if part == "A":
        block, name = _part_a(res, case)
        both = b"'" in block and b'"' in block
        res.nontrivial = both or b"\\'" in block or b"[" in block or any(x in name for x in ("version", "Snapshot", "Spa pack", "["))
        res.label("A-snapshot")
        if any(x in name for x in ("version", "Snapshot", "Spa pack", "[")):
            res.label("A-name-header-like")
    elif part == "B":
        block, nseg = _part_b(res, case)
        both = b"'" in block and b'"' in block
        res.nontrivial = both or b"\\'" in block or b"[" in block
        if case.get("eager"):
            res.label("B-handshake-socket-thread-runs-inside-start_connect")
        res.label("B-handshake" if case.get("handshake") else "B-transfer", f"B-segments-{'1' if nseg <= 1 else '2-5' if nseg <= 5 else '6+'}")
        if both:
            res.label("B-both-quotes")
    elif part == "C":
        _part_c(res, case)
        res.nontrivial = True
        res.label(f"C-shipped-{case.get('client', 'async')}")
    else:
        raise InvalidCase(case)
    return res
