"""C10  Reset or exit at any point leaks no endpoint/task and has no late effects.

Full stack in the virtual world.  A reset / set-spa-info / context exit is injected at a
generated virtual time or loop step (discovery, each handshake step, steady state, error
states reached through a fault phase), possibly several cycles in a row; then late datagrams
are delivered to every endpoint ever opened and all timers are allowed to fire.  The harness
loop hands out every endpoint, so close() calls, task liveness and observer calls are all
observable from outside.
"""
import asyncio

from hypothesis import strategies as st

from .. import clients, manager, refcodec as R, vworld
from ..runner import HarnessError, InvalidCase, Result

ID = "C10"
LEVEL = "fault_enumeration"
J_MAX = 0.05
RULE = (
    "generated: 1..5 cycles, each = (optional fault phase: none / blackout 150 s / rferr 40 s) then an "
    "injection in {reset, set-spa-info} at a virtual time biased into discovery (0..0.45 s), the handshake "
    "(0.45..3.6 s), steady state or the error state, or at a loop step index; finally a context exit at a "
    "generated time (also mid-discovery / mid-handshake); jitter tape; client-handler suspensions. After each "
    "injection late STATP/RFERR datagrams are sent to every endpoint ever opened and 150 virtual s pass. "
    "thorough additionally enumerates every loop step of discovery+handshake for each injection kind. "
    "Non-trivial = an injection that lands inside discovery or a handshake (not steady state); distinct by canonical case."
)
ASSUMPTIONS = [
    "'terminates promptly' = done within 2 polling intervals (+jitter) of the injection returning",
    "'bounded' = open endpoints and live connection tasks after cycle n are not more than after cycle 1",
    "observers are registered through the public watch() on the facade, every automation device, the spa and sample accessors",
]
BUDGET = {
    "quick": {"workers": 16, "examples": 480},
    "thorough": {"workers": 16, "examples": 12000},
}


DISCOVERY_BOUND = 10.0 + 0.5   # GeckoConfig.DISCOVERY_TIMEOUT_IN_SECONDS of the active configuration + one polling round
RAISABLE = ["LOCATING_DISCOVERED_SPA", "CONNECTION_GOT_FIRMWARE_VERSION", "CONNECTION_GOT_CHANNEL", "CONNECTION_GOT_CONFIG_FILES",
            "CONNECTION_INITIAL_DATA_BLOCK_REQUEST", "CONNECTION_SPA_COMPLETE"]


def strategy(tier):
    t = st.one_of(st.floats(0.0, 0.45), st.floats(0.45, 3.6), st.floats(0.45, 3.6), st.floats(3.6, 20.0), st.just(140.0)).map(lambda x: round(x, 3))
    cyc = st.tuples(st.sampled_from(["none", "none", "none", "blackout", "rferr", "dark"]), st.sampled_from(["reset", "reset", "setinfo"]), t,
                    st.one_of(st.just(0), st.just(0), st.integers(1, 400))).map(list)
    jitter = st.one_of(st.just([]), st.lists(st.sampled_from([0.0, 0.0, 0.01, 0.03, 0.05]), min_size=1, max_size=7))
    # (1.0 s: longer than the sequence pump's polling interval plus a whole discovery - what the pump could do behind a suspended
    # handler on the reset / exit path)
    smap = st.dictionaries(st.sampled_from(["RUNNING_SPA_DISCONNECTED", "CLIENT_FACADE_TEARDOWN", "CONNECTION_STARTED", "LOCATING_FINISHED", "SPA_MAN_EXIT"]),
                           st.sampled_from([0.02, 0.06, 1.0]), max_size=2)
    # a connection attempt that ends with an exception of its own (here: the client's handler fails while it is told about a
    # handshake step) is an abandoned connection as well
    rmap = st.one_of(st.just({}), st.just({}), st.just({}), st.dictionaries(
        st.sampled_from(RAISABLE), st.integers(1, 3), min_size=1, max_size=2))
    # a client task is in the middle of a facade command (the spa does not acknowledge) when the first reset / exit comes
    infl = st.one_of(st.none(), st.none(), st.none(), st.tuples(st.sampled_from(["press", "press-task", "pump", "temp"]), st.sampled_from([0.3, 1.0, 3.0, 5.5, 7.0])).map(list))
    # the facade of a connection that completed its handshake cannot be built (injected fault: the constructor of one of its parts
    # raises the first n times) - one more way for a connection attempt to end with an exception of its own
    ffault = st.one_of(st.none(), st.none(), st.none(), st.none(), st.tuples(st.sampled_from(FACADE_PARTS), st.integers(1, 3)).map(list))
    return st.builds(lambda cs, ex, es, j, sm, rm, inf, ff: dict({"cycles": cs, "exit_at": ex, "jitter": j, "suspend_map": sm}, **({"exit_step": es} if es else {}),
                                                                 **({"raise_map": rm} if rm else {}), **({"inflight": inf} if inf else {}),
                                                                 **({"facade_fault": ff} if ff else {})),
                     st.lists(cyc, min_size=0, max_size=5), t, st.one_of(st.just(0), st.just(0), st.integers(1, 400)), jitter, smap, rmap, infl, ffault)


_STEPS = {}
FACADE_PARTS = ["GeckoWaterHeater", "GeckoKeypad", "GeckoPump", "GeckoLight", "GeckoSwitch"]


def enumerated(tier):
    # in both tiers: a reset / set-spa-info at every loop step around the creation of the connection's endpoint (around step 100 when the harness polls every 10 ms while it waits for the hook), after which the spa
    # goes dark - the abandoned attempt's handshake gets no answer and ends by exhausting its retries, not by an exception
    dark = [{"cycles": [["dark", k, 0.0, step]], "exit_at": 5.0, "jitter": [], "suspend_map": {}} for step in range(92, 124) for k in ("reset", "setinfo")]
    # leaving the context (connected / in an error state) while the client's handler for an exit-path event suspends for a second
    for ev_ in ("RUNNING_SPA_DISCONNECTED", "CLIENT_FACADE_TEARDOWN", "SPA_MAN_EXIT"):
        dark.append({"cycles": [], "exit_at": 8.0, "jitter": [], "suspend_map": {ev_: 1.0}})
        dark.append({"cycles": [["blackout", "reset", 0.0, 0]], "exit_at": 8.0, "jitter": [], "suspend_map": {ev_: 1.0}})
    # the library's own recovery reset (run from inside the ping loop once a ping is answered again after an error state)
    for flt_ in ("blackout", "rferr"):
        for at_ in (70.0, 130.0):
            dark.append({"cycles": [[flt_, "reset", at_, 0]], "exit_at": 3.0, "jitter": [], "suspend_map": {}})
    # the timing table is re-selected (which wakes the task manager's tidy pass) at each loop step around the start of the connection
    # attempt; a reset and the exit follow
    for step in range(28, 56):
        dark.append({"cycles": [["none", "reset", 6.0, 0]], "exit_at": 3.0, "jitter": [], "suspend_map": {}, "kick": [step]})
    # the facade cannot be built the first n times (one of its parts raises); a reset / the exit comes while a later attempt is
    # under way or after one succeeded
    for part in FACADE_PARTS:
        for n_ in (1, 3):
            for at_ in (4.5, 6.0, 12.0, 30.0):
                dark.append({"cycles": [["none", "reset", at_, 0]], "exit_at": 3.0, "jitter": [], "suspend_map": {}, "facade_fault": [part, n_]})
            dark.append({"cycles": [], "exit_at": 5.0 + n_, "jitter": [], "suspend_map": {}, "facade_fault": [part, n_]})
    if tier != "thorough":
        return len(dark), lambda i: dark[i]
    n = 420
    kinds = ["reset", "setinfo", "exit"]

    def fn(i):
        if i >= n * 3:
            return dark[i - n * 3]
        k, step = kinds[i % 3], 1 + i // 3
        if k == "exit":
            return {"cycles": [], "exit_at": 0.0, "exit_step": step, "jitter": [], "suspend_map": {}}
        return {"cycles": [["none", k, 0.0, step]], "exit_at": 5.0, "jitter": [], "suspend_map": {}}

    return n * 3 + len(dark), fn


def run_case(case) -> Result:
    from geckolib import GeckoSpaEvent as E, GeckoSpaState as S

    res = Result()
    jitter = [min(float(j), J_MAX) for j in case.get("jitter", [])]
    J = max(jitter) if jitter else 0.0
    sc = manager.Scenario(jitter=jitter)
    W, sim, peer = sc.W, sc.sim, sc.peer
    Man = manager.make_man_class()
    info = {"busy_inject": False, "calls": [], "gens": [], "cycle_counts": [], "stale": set()}
    busy_states = (S.LOCATING_SPAS, S.LOCATED_SPAS, S.CONNECTING, S.SPA_READY)
    CONN = ("SPA:", "FACADE:", "LOC:")

    def conn_tasks(man):
        return [t for t in man._tasks if t.get_name().startswith(CONN) and not t.done()]

    def open_eps():
        return [t for t in W.transports if not t.closed]

    def watch_generation(man):
        """register observers on the current facade generation"""
        fac, spa = man.facade, man._spa
        gen = {"id": len(info["gens"]), "dead_at": None, "facade": fac, "spa": spa}
        info["gens"].append(gen)

        def mk(label):
            def obs(*a):
                info["calls"].append((W.clock.t, gen["id"], label))
            return obs
        targets = [("facade", fac), ("spa", spa)]
        for d in fac.all_automation_devices:
            if d is not None:
                targets.append((f"device:{d.key}", d))
        for tag in list(spa.accessors)[:12]:
            targets.append((f"accessor:{tag}", spa.accessors[tag]))
        for label, obj in targets:
            obj.watch(mk(label))

    def late_traffic():
        """datagrams of the abandoned connection(s) arriving late, at every endpoint ever opened"""
        for tr in list(W.transports):
            for body in (R.partial_update([(300, b"\x12\x34")]), R.rferr(), b"WCERR", R.ping_response()):
                dg = R.frame(clients.SPA_ID, b"IOSvp-client-uuid", body)
                if tr.closed:
                    tr.late_deliveries += 1
                else:
                    W.inject(tr, dg, peer.addr)

    async def main(W):
        man = Man(W, spa_identifier=manager.SPA_ID_STR, spa_address=peer.addr[0], spa_name="Spa")
        man.suspend_map = dict(case.get("suspend_map", {}))
        man.raise_map = dict(case.get("raise_map", {}))
        raise_budget = sum(man.raise_map.values())
        sc.man = man
        exited = False
        await man.__aenter__()
        for st_ in case.get("kick", []):
            from geckolib.config import set_config_mode
            W.loop.step_hooks[W.loop.steps + int(st_)] = (lambda: set_config_mode(False))
        try:
            t_enter = W.clock.t
            seen_ready = 0

            async def pump_until(t_end):
                nonlocal seen_ready
                while W.clock.t < t_end:
                    await W.sleep(min(0.05, max(0.005, t_end - W.clock.t)))
                    n = sum(1 for d in man.delivered if d["event"] == E.CLIENT_FACADE_IS_READY)
                    if n > seen_ready and man.facade is not None and man._spa is not None:
                        seen_ready = n
                        watch_generation(man)

            for ci, (fault, kind, at, step) in enumerate(case["cycles"]):
                t_c = W.clock.t
                if fault not in ("none", "blackout", "rferr", "dark") or kind not in ("reset", "setinfo"):
                    raise InvalidCase(case)
                # reach an error state first, if asked (needs a connection)
                if fault not in ("none", "dark"):
                    await pump_until(W.clock.t + 6.0)
                    sc.apply("blackout" if fault == "blackout" else "rferr", True)
                    await pump_until(W.clock.t + (150.0 if fault == "blackout" else 40.0))
                    sc.apply("healthy")
                    t_c = W.clock.t
                snap = {}

                def capture():
                    # everything that exists when the injection starts belongs to the connection being abandoned
                    # (an endpoint whose creation is still in flight has not been given to the library yet: it belongs to
                    # the connection attempt that is running underneath the injection, judged below with that attempt)
                    snap["eps"] = [t for t in W.transports if t.handed_over or t.closed]
                    # every task the library runs for this connection, whatever it is called (only the manager's own pump and the
                    # task manager's tidy loop outlive a connection)
                    snap["tasks"] = [t for t in man._tasks if not t.get_name().startswith(("SPAMAN:", "ASYNC:"))]
                    snap["spa"] = man._spa
                    snap["t"] = W.clock.t
                    if man.spa_state in busy_states:
                        info["busy_inject"] = True

                infl = case.get("inflight") if (ci == 0 and fault == "none" and not step) else None
                if infl:
                    # steady state first, then a command whose acknowledgement never comes, then (lead seconds later) the injection
                    await pump_until(max(W.clock.t, t_c + 8.0))
                    if man.facade is not None and man.spa_state == S.CONNECTED:
                        W.s2c_filter = lambda data: "drop" if b"<DATAS>PACKS" in data else None
                        fac = man.facade

                        async def user_command():
                            try:
                                if infl[0] == "press":
                                    await man._spa.async_press(1)
                                elif infl[0] == "press-task":
                                    man._spa.press(3)          # the non-awaitable twin: the library runs the key press in a task of its own
                                    await W.sleep(0.01)
                                elif infl[0] == "pump" and fac.pumps:
                                    await fac.pumps[0].async_set_mode(fac.pumps[0].modes[-1])
                                else:
                                    await fac.water_heater.async_set_target_temperature(fac.water_heater.target_temperature + 1)
                            except asyncio.CancelledError:
                                raise
                            except Exception as e:   # the command fails in the client's own task when its connection goes away
                                info["user_exc"] = repr(e)
                        info["user_task"] = asyncio.ensure_future(user_command())
                        info["user_task"].set_name("VP:user command")
                        at = (W.clock.t - t_c) + float(infl[1])
                if step:
                    box = {}

                    def hook():
                        capture()
                        coro = man.async_reset() if kind == "reset" else man.async_set_spa_info(peer.addr[0], manager.SPA_ID_STR, "Spa")
                        box["t"] = asyncio.ensure_future(coro)
                    W.loop.step_hooks[W.loop.steps + int(step)] = hook
                    for _ in range(4000):
                        await W.sleep(0.01)
                        if "t" in box:
                            break
                    if "t" not in box:
                        raise HarnessError("step hook did not fire")
                    await box["t"]
                else:
                    await pump_until(t_c + float(at))
                    capture()
                    if kind == "reset":
                        await man.async_reset()
                    else:
                        await man.async_set_spa_info(peer.addr[0], manager.SPA_ID_STR, "Spa")
                t_inj = W.clock.t
                if fault == "dark":
                    W.blackout = True
                    W.loop.call_at_exact(W.clock.t + 75.0, lambda: setattr(W, "blackout", False))
                W.s2c_filter = None
                if infl and "user_task" in info:
                    info["inflight_at"] = t_inj
                    info["n_delivered"] = len(man.delivered)
                for g in info["gens"]:
                    if g["dead_at"] is None:
                        g["dead_at"] = t_inj
                # -- prompt termination of the abandoned connection's tasks
                await W.sleep(2 * (vworld.POLL + J) + 0.01)
                # A discovery that is in flight belongs to the manager's sequence pump, not to the connection: a reset does not
                # stop it, the pump goes on with its result.  Its endpoint and tasks are therefore only required to end with the
                # discovery itself (DISCOVERY_TIMEOUT after it opened the endpoint), everything else promptly.
                loc_eps = [tr for tr in snap["eps"] if not tr.closed and tr.kwargs.get("allow_broadcast")]
                if loc_eps:
                    await pump_until(max(tr.opened_at for tr in loc_eps) + DISCOVERY_BOUND + J)
                still = [t.get_name() for t in snap["tasks"] if not t.done() and id(t) not in info["stale"]]
                if still:
                    res.fail(f"C10|task-survives|{kind}|{sorted(set(still))[0]}", f"cycle {ci}: {still} still running {W.clock.t - t_inj:.2f}s after {kind} returned")
                # -- endpoints of the abandoned connection closed
                for tr in snap["eps"]:
                    if not tr.closed and id(tr) not in info["stale"]:
                        res.fail(f"C10|endpoint-open|{kind}|{'broadcast' if tr.kwargs.get('allow_broadcast') else 'spa'}",
                                 f"cycle {ci}: endpoint {tr.local_addr} opened at {tr.opened_at - t_enter:.2f}s is still open {W.clock.t - t_inj:.2f}s after {kind} at {t_inj - t_enter:.2f}s")
                # -- a connection attempt that was in flight when the injection started is abandoned too:
                # whatever it creates while / after the injection runs (endpoint, tasks) must not outlive it
                win_eps = [tr for tr in W.transports if tr not in snap["eps"] and tr.opened_at <= t_inj + 1e-9]
                win_tasks = [t for t in man._tasks if t.get_name().startswith(CONN) and t not in snap["tasks"]]
                stale_spa = snap["spa"]
                if stale_spa is not None and man._spa is not stale_spa and (win_eps or win_tasks):
                    await pump_until(W.clock.t + 70.0)   # an abandoned attempt has given up by now
                    live_spa = man._spa
                    for tr in win_eps:
                        if not tr.closed and tr is not getattr(live_spa, "_transport", None):
                            info["stale"].add(id(tr))
                            res.fail(f"C10|stale-connect-endpoint|{kind}", f"cycle {ci}: the connection attempt that was running when {kind} was called "
                                     f"opened endpoint {tr.local_addr} underneath it; it is never closed")
                    if getattr(stale_spa, "_transport", None) is not None and not stale_spa._transport.closed:
                        stale_alive = [t.get_name() for t in win_tasks if not t.done() and t.get_name().startswith("SPA:")]
                        if stale_alive:
                            info["stale"].update(id(t) for t in win_tasks)
                            res.fail(f"C10|stale-connect-tasks|{kind}", f"cycle {ci}: tasks of the abandoned connection attempt keep running: {sorted(set(stale_alive))}")
                if infl and "inflight_at" in info and ci == 0:
                    await pump_until(max(W.clock.t, t_inj + 100.0))
                    # the abandoned connection's request must not speak up any more: on the healthy network the only events now are
                    # those of the new connection, none of them an error, and the manager is connected again
                    late = [d for d in man.delivered[info["n_delivered"]:] if d["event"].name.startswith("ERROR_") or "RETRY_COUNT_EXCEEDED" in d["event"].name]
                    if late:
                        res.fail(f"C10|late-event|{late[0]['event'].name}", f"cycle 0: a facade command ({infl[0]}) was waiting for its acknowledgement when {kind} "
                                 f"was called; {late[0]['t'] - t_inj:.1f}s later the client is told {late[0]['event'].name} (state {late[0]['state'].name}) on a healthy network")
                    elif man.spa_state != S.CONNECTED:
                        res.fail(f"C10|late-event|not-reconnected|{man.spa_state.name}", f"cycle 0: 100 s after {kind} with a facade command in flight the manager is {man.spa_state.name}")
                    ut = info["user_task"]
                    if not ut.done():
                        ut.cancel()
                        res.fail("C10|task-survives|user-command", f"cycle 0: the client's facade command is still pending 100 s after {kind}")
                late_traffic()
                await pump_until(W.clock.t + 150.0)
                info["cycle_counts"].append((len([t for t in open_eps() if id(t) not in info["stale"]]),
                                             len([t for t in conn_tasks(man) if id(t) not in info["stale"]])))
            # ---- context exit
            if case.get("exit_step"):
                box = {}

                def hook2():
                    box["t"] = asyncio.ensure_future(man.__aexit__(None, None, None))
                    if man.spa_state in busy_states:
                        info["busy_inject"] = True
                W.loop.step_hooks[W.loop.steps + int(case["exit_step"])] = hook2
                for _ in range(4000):
                    await W.sleep(0.01)
                    if "t" in box:
                        break
                exit_task = box["t"]
            else:
                await pump_until(W.clock.t + float(case.get("exit_at", 1.0)))
                if man.spa_state in busy_states:
                    info["busy_inject"] = True
                exit_task = asyncio.ensure_future(man.__aexit__(None, None, None))
            # leaving the context waits for every task; a task that refuses to end must not hang the harness
            await asyncio.wait([exit_task], timeout=900.0)
            exited = True
            if not exit_task.done():
                live = sorted(t.get_name() for t in man._tasks if not t.done())
                res.fail(f"C10|exit-never-returns|{live[0] if live else '?'}", f"leaving the manager context did not return within 900 virtual s; still running: {live}")
                exit_task.cancel()
                W.expect_leftover = True
                return
            if exit_task.exception() is not None:
                raise exit_task.exception()
            t_exit = W.clock.t
            info["raised"] = raise_budget - sum(man.raise_map.values())
            for g in info["gens"]:
                if g["dead_at"] is None:
                    g["dead_at"] = t_exit
            me = asyncio.current_task()
            left = [t.get_name() for t in asyncio.all_tasks() if t is not me and not t.done() and id(t) not in info["stale"]]
            if left:
                res.fail(f"C10|task-after-exit|{sorted(left)[0]}", f"tasks alive after the manager context was exited: {left}")
            for tr in W.transports:
                if not tr.closed and id(tr) not in info["stale"]:
                    res.fail(f"C10|endpoint-open|exit|{'broadcast' if tr.kwargs.get('allow_broadcast') else 'spa'}",
                             f"endpoint {tr.local_addr} (opened at {tr.opened_at - t_enter:.2f}s) still open after context exit at {t_exit - t_enter:.2f}s")
            late_traffic()
            await W.sleep(150.0)
        finally:
            if not exited:
                await man.__aexit__(None, None, None)
        # ---- every reset, also the manager's own recovery reset (run by the spa's ping loop), ends the tasks of the connection
        for r in man.resets:
            alive = (r.get("late") or {}).get("alive_after")
            if alive:
                origin = "recovery" if r["task"].startswith("SPA:") else "user"
                res.fail(f"C10|task-survives|{origin}-reset|{alive[0]}", f"async_reset() run by {r['task']} at {r['t0'] - t_enter:.2f}s: 0.35 s after it returned "
                         f"{alive} of the abandoned connection are still running")
                break
        # ---- every reset, also the manager's own recovery reset (run by the spa's ping loop), closes the endpoint it abandons
        for r in man.resets:
            tr = r.get("transport")
            if tr is None or id(tr) in info["stale"]:
                continue
            if not tr.closed or tr.closed_at > r["t1"] + 1.0:
                origin = "recovery" if r["task"].startswith("SPA:") else "user"
                res.fail(f"C10|endpoint-open|{origin}-reset|{'completed' if r['completed'] else 'aborted'}",
                         f"async_reset() run by {r['task']} at {r['t0'] - t_enter:.2f}s ({'completed' if r['completed'] else 'did not complete'}): the connection's endpoint "
                         f"{tr.local_addr} is {'still open' if not tr.closed else f'closed only {tr.closed_at - r['t1']:.1f}s later'}")
                break
        # ---- late effects
        for t_, gid, label in info["calls"]:
            g = info["gens"][gid]
            if g["dead_at"] is not None and t_ > g["dead_at"] + 1e-9:
                res.fail(f"C10|late-observer-call|{label.split(':')[0]}", f"observer on {label} of connection #{gid} called {t_ - g['dead_at']:.2f}s after it was abandoned")
                break
        # ---- boundedness over cycles
        cc = info["cycle_counts"]
        if len(cc) >= 2:
            base = cc[0]
            for n, c in enumerate(cc[1:], 1):
                if c[0] > max(base[0], 1) or c[1] > max(base[1], 8):
                    res.fail("C10|unbounded-growth", f"after cycle {n}: {c[0]} open endpoints / {c[1]} live connection tasks; after cycle 0: {base}")
                    break

    ff = case.get("facade_fault")
    undo = None
    if ff:
        if ff[0] not in FACADE_PARTS or not 1 <= int(ff[1]) <= 3:
            raise InvalidCase(case)
        import geckolib.automation.async_facade as AF
        real, left = getattr(AF, ff[0]), [int(ff[1])]

        def failing_part(*a, **kw):
            if left[0] > 0:
                left[0] -= 1
                info["facade_failed"] = info.get("facade_failed", 0) + 1
                info["facade_failed_at"] = W.clock.t
                raise RuntimeError(f"injected fault: {ff[0]} cannot be built")
            return real(*a, **kw)
        setattr(AF, ff[0], failing_part)
        undo = lambda: setattr(AF, ff[0], real)
    try:
        W.run(main)
    except (HarnessError, asyncio.CancelledError):
        # a case that no longer ends (step limit of the virtual loop) or whose driver is cancelled from inside the library is a
        # harness matter - unless the oracles had already spoken: what they found up to that point stands
        if not res.violations:
            raise
        res.label("aborted-after-violation")
    finally:
        if undo:
            undo()
    if info.get("facade_failed"):
        res.label("facade-construction-failed")
    res.nontrivial = info["busy_inject"] or info.get("raised", 0) > 0 or info.get("facade_failed", 0) > 0
    if info.get("raised"):
        res.label("connection-attempt-raised")
    if "inflight_at" in info:
        res.nontrivial = True
        res.label("command-in-flight-at-reset")
    res.label(f"cycles-{min(len(case['cycles']), 3)}")
    if info["busy_inject"]:
        res.label("inject-in-discovery-or-handshake")
    if info["gens"]:
        res.label("had-facade")
    return res
