"""C05  Partial updates are applied exactly once, in arrival order, and acknowledged.

Histories of unsolicited STATP messages (0..n 4-byte records, repeated positions, the
simulator's own 1-byte change) interleaved with log-range refreshes of a mutated simulator
block, against a connected async client (E3) and the threaded GeckoSpa (E4).  Oracle: a
reference block folded in delivery order + one STATQ (protocol-range sequence) per STATP.
"""
import asyncio

from hypothesis import strategies as st

from .. import clients, refcodec as R, stepped, vworld
from ..runner import HarnessError, InvalidCase, Result, SetupFailed

ID = "C05"
LEVEL = "fault_enumeration"
RULE = (
    "generated histories (<=14 ops) on a connected client: STATP with 0..6 (pos, 2-byte) records "
    "(positions biased into the refreshed log window, repeats and overlapping words), the "
    "simulator's own 1-byte change, silent mutation of the simulator block, log-range refresh "
    "(not awaited: later STATPs arrive while its segments are in flight), idle gaps; async client "
    "(optionally jittered) and threaded client (there also: updates arriving while the handshake is still running). Non-trivial = >=2 STATPs touching a common byte, or "
    "STATP -> refresh of that byte -> another STATP (incl. an empty one); distinct by canonical case."
)
ASSUMPTIONS = [
    "arrival order = order in which datagrams are handed to datagram_received / the mock socket (FIFO network)",
    "a refresh installs whole 39-byte segments (ceil(length/39)*39 bytes clipped to the block), as the simulator serves them",
    "no STATQ or truncated STATP is sent towards the client (outside the quantifier)",
]
BUDGET = {
    "quick": {"workers": 16, "examples": 4800},
    "thorough": {"workers": 16, "examples": 32000},
}
BLOCK = 1024
SEG = 39


def strategy(tier):
    pos = st.one_of(st.integers(256, 700), st.integers(256, 300), st.integers(0, 1022), st.sampled_from([256, 275, 276, 762, 763, 1022]))
    rec = st.tuples(pos, st.binary(min_size=2, max_size=2).map(bytes.hex)).map(list)
    # records clustered around one position: repeats and overlapping 2-byte words in ONE message
    cluster = st.tuples(st.integers(257, 700),
                        st.lists(st.tuples(st.sampled_from([0, 0, 1, -1, 2]), st.binary(min_size=2, max_size=2).map(bytes.hex)),
                                 min_size=2, max_size=5)).map(lambda t: ["statp", [[t[0] + d, h] for d, h in t[1]]])
    ops = st.one_of(
        cluster,
        st.lists(rec, max_size=6).map(lambda r: ["statp", r]),
        st.lists(rec, max_size=6).map(lambda r: ["statp", r]),
        st.just(["statp", []]),
        st.tuples(st.integers(0, 55), st.integers(0, 300)).map(lambda t: ["bigstatp", t[0], t[1]]),
        st.tuples(pos, st.integers(0, 255)).map(lambda t: ["simset", min(t[0], 1023), t[1]]),
        st.tuples(pos, st.binary(min_size=1, max_size=4).map(bytes.hex)).map(lambda t: ["simpoke", t[0], t[1]]),
        st.just(["refresh"]),
        st.just(["refresh"]),
        st.integers(0, 11).map(lambda j: ["lossyrefresh", j]),
        st.sampled_from([0.0, 0.05, 0.3, 1.0, 5.0]).map(lambda d: ["gap", d]),
    )
    # macro: the history shape behind 'replayed from an earlier message': a change, the same bytes overwritten on the spa and
    # fetched by a completed refresh, then a message with few / no records (flattened into the op list)
    h2 = st.binary(min_size=2, max_size=2).map(bytes.hex)
    macro = st.tuples(st.integers(257, 700), h2, h2, st.sampled_from([0.6, 1.0, 3.0]),
                      st.one_of(st.just([]), st.lists(rec, max_size=1))).map(
        lambda t: [["statp", [[t[0], t[1]]]], ["gap", 0.3], ["simpoke", t[0], t[2]], ["refresh"], ["gap", t[3]], ["statp", t[4]]])
    item = st.one_of(ops.map(lambda o: [o]), ops.map(lambda o: [o]), ops.map(lambda o: [o]), macro)
    jitter = st.one_of(st.just([]), st.lists(st.sampled_from([0.0, 0.0, 0.01, 0.02]), min_size=1, max_size=5))
    # partial updates that arrive while the connection handshake is still running (at the given engine iteration / virtual time)
    early = st.one_of(st.just([]), st.just([]), st.lists(st.tuples(st.integers(1, 70), st.lists(rec, min_size=1, max_size=2)).map(list), min_size=1, max_size=2))
    # protocol sequence numbers already used up on this connection (the acknowledgements must stay in 1..191 across the wrap)
    pre = st.one_of(st.just(0), st.integers(0, 200), st.integers(176, 192))
    return st.builds(lambda k, seed, o, j, e, pr: dict({"k": k, "seed": seed, "ops": [x for grp in o for x in grp][:14], "jitter": j if k == "async" else []},
                                                      **({"early": e} if e and k == "threaded" else {}), **({"pre": pr} if pr else {})),
                     st.sampled_from(["async", "async", "threaded"]), st.integers(0, 2**31),
                     st.lists(item, min_size=1, max_size=10), jitter, early, pre)


def _classify(ops):
    """non-triviality of a history (pure function of the case)"""
    touched = {}
    nt = False
    refreshed_after = set()
    for op in ops:
        if op[0] == "statp":
            if not op[1] and refreshed_after:
                nt = True
            for p, h in op[1]:
                for b in (p, p + 1):
                    if b in touched:
                        nt = True
                    if b in refreshed_after:
                        nt = True
                    touched[b] = 1
        elif op[0] == "simset":
            if op[1] in touched:
                nt = True
            touched[op[1]] = 1
        elif op[0] in ("refresh", "lossyrefresh"):
            refreshed_after |= {b for b in touched if 256 <= b < 256 + 507}
    return nt


def _apply(block, pos, data):
    return block[:pos] + data + block[pos + len(data):]


def _installed_range(start, length):
    n = -(-length // SEG) * SEG
    return start, min(BLOCK, start + n)


class _Ref:
    """reference fold in delivery order"""

    def __init__(self, block):
        self.block = block
        self.pending_refresh = []  # snapshots of the served range, one per STATU served

    def on_statp(self, content):
        n = content[5]
        body = content[6:]
        if n == 1 and len(body) == 3:  # the simulator's 1-byte change
            self.block = _apply(self.block, int.from_bytes(body[:2], "big"), body[2:3])
            return
        for p, d in R.parse_statp(content):
            self.block = _apply(self.block, p, d)


def _hole_filter(hole):
    """drops the hole-th STATV segment it sees, once"""
    state = {"n": 0, "done": False}

    def flt(data):
        if state["done"] or b"<DATAS>STATV" not in data:
            return None
        state["n"] += 1
        if state["n"] - 1 == hole:
            state["done"] = True
            return "drop"
        return None
    return flt


def _run_async(res, case):
    from geckolib.driver import GeckoStatusBlockProtocolHandler

    W = vworld.World(jitter=case.get("jitter") or None)
    sim = vworld.make_simulator()
    peer = W.add_peer(sim)

    async def main(W):
        spa, tm, ev = await clients.connect_async_spa(W, peer)
        try:
            tr = W.transports[-1]
            sim._clients = [(tr.local_addr[0], tr.local_addr[1], clients.CLIENT_ID, clients.SPA_ID)]
            start, length = spa.log_class.begin, spa.log_class.end
            lo, hi = _installed_range(start, length)
            d0 = len(W.delivered)
            w0 = len(W.wire)
            for _ in range(int(case.get("pre", 0))):
                spa._protocol.get_and_increment_sequence_counter(False)   # a connection that has been up for a while
            ref = _Ref(spa.struct.status_block)
            served = []  # sim block snapshots in the order STATU requests are served
            orig_receive = peer.receive

            def receive(data, client_addr):
                if b"<DATAS>STATU" in data:
                    served.append(sim.structure.status_block)
                orig_receive(data, client_addr)

            peer.receive = receive
            tasks = []
            nstatp = 0
            for op in case["ops"]:
                k = op[0]
                if k == "statp":
                    changes = [(p, bytes.fromhex(h)) for p, h in op[1]]
                    if any(p + len(d) > BLOCK or len(d) != 2 for p, d in changes):
                        raise InvalidCase(op)
                    W.inject(tr, R.frame(clients.SPA_ID, clients.CLIENT_ID, R.partial_update(changes)), peer.addr)
                    nstatp += 1
                elif k == "simset":
                    sim._send_structure_change = True
                    try:
                        sim._on_set_value(op[1], 1, op[2])
                    finally:
                        sim._send_structure_change = False
                    peer.push(None)
                    nstatp += 1
                elif k == "simpoke":
                    d = bytes.fromhex(op[2])[: BLOCK - op[1]]
                    sim.structure.set_status_block(_apply(sim.structure.status_block, op[1], d))
                elif k in ("refresh", "lossyrefresh"):
                    if k == "lossyrefresh":
                        # one middle segment of the answer is lost: the final segment arrives out of sequence and the client asks again
                        nseg = -(-length // SEG)
                        hole = 1 + int(op[1]) % max(1, nseg - 2)
                        W.s2c_filter = _hole_filter(hole)
                    tasks.append(asyncio.ensure_future(spa.struct.get(spa._protocol, spa._get_status_block_handler_func, 3)))
                    await asyncio.sleep(0)
                    if k == "lossyrefresh":
                        # keep later traffic out of the damaged exchange: the filter counts segments of this answer only
                        await W.sleep(1.5)
                        W.s2c_filter = None
                elif k == "gap":
                    await W.sleep(float(op[1]))
                else:
                    raise InvalidCase(op)
            # quiescence
            t_end = W.clock.t + 400
            while tasks and not all(t.done() for t in tasks) and W.clock.t < t_end:
                await W.sleep(0.2)
            if tasks and not all(t.done() for t in tasks):
                res.fail("C05|refresh-does-not-finish|async", "a refresh did not finish within 400 virtual seconds")
                for t in tasks:
                    t.cancel()
                return
            if not await W.drain([spa._protocol.queue]):
                raise SetupFailed("no quiescence")
            await W.sleep(0.5)
            # reference: fold deliveries in order; a refresh counts at its final segment
            results = [t.result() for t in tasks]
            # which answers reached the client complete (an answer with a lost segment is not installed)
            chain_ok = []
            for w in W.wire[w0:]:
                if w[1] == "c2s" and b"<DATAS>STATU" in w[4] and w[5] == "deliver":
                    chain_ok.append(True)
                elif w[1] == "s2c" and b"<DATAS>STATV" in w[4] and w[5] != "deliver" and chain_ok:
                    chain_ok[-1] = False
            seg_chain = 0
            for t_, ep, data in W.delivered[d0:]:
                parts = R.unframe(data)
                if parts is None:
                    continue
                content = parts[2]
                if content.startswith(b"STATP"):
                    ref.on_statp(content)
                elif content.startswith(b"STATV"):
                    if content[6] == 0:  # next == 0: the chain completes here
                        snap = served[seg_chain] if seg_chain < len(served) else None
                        complete = chain_ok[seg_chain] if seg_chain < len(chain_ok) else True
                        seg_chain += 1
                        if snap is not None and complete:
                            ref.block = ref.block[:lo] + snap[lo:hi] + ref.block[hi:]
            if not all(results):
                # a refresh that failed (only possible under jitter) installs nothing: cannot fold; skip the block oracle
                if not case.get("jitter") and not any(o[0] == "lossyrefresh" for o in case["ops"]):
                    res.fail("C05|refresh-failed-fault-free|async", f"refresh results {results}")
                res.label("refresh-failed")
            else:
                got = spa.struct.status_block
                if got != ref.block:
                    bad = [i for i in range(min(len(got), BLOCK)) if got[i] != ref.block[i]][:10]
                    res.fail("C05|block-differs|async",
                             f"client block differs from the delivery-order fold at bytes {bad} "
                             f"(client {[got[i] for i in bad]} expected {[ref.block[i] for i in bad]}); len={len(got)}")
            acks = [w for w in W.wire[w0:] if w[1] == "c2s" and b"<DATAS>STATQ" in w[4]]
            if len(acks) != nstatp:
                res.fail("C05|ack-count|async", f"{nstatp} partial updates delivered, {len(acks)} STATQ acknowledgements sent")
            for a in acks:
                c = R.unframe(a[4])
                if c is None or len(c[2]) != 6 or not (1 <= c[2][5] <= 191):
                    res.fail("C05|ack-sequence|async", f"acknowledgement {a[4]!r}")
                elif (c[0], c[1]) != (clients.CLIENT_ID, clients.SPA_ID):
                    res.fail("C05|ack-address|async", f"acknowledgement {a[4]!r}")
        finally:
            await clients.shutdown(tm)

    W.run(main)


def _run_threaded(res, case):
    sim = vworld.make_simulator()
    eng = stepped.Engine()
    with eng.patched():
        early = sorted((int(at), recs) for at, recs in case.get("early", []))
        nstatp = 0
        if early:
            # unsolicited partial updates while the handshake is in progress: the initial full block arrives after them and
            # overwrites whatever they changed, so the arrival-order fold after the handshake is simply the spa's block
            spa = stepped.make_threaded_spa(eng, sim)
            spa.start_connect()
            pending = list(early)

            def feed(e):
                nonlocal nstatp
                while pending and e.iterations >= pending[0][0] and not spa._is_connected:
                    _, recs = pending.pop(0)
                    changes = [(p, bytes.fromhex(h)) for p, h in recs]
                    if any(p + len(d) > BLOCK or len(d) != 2 for p, d in changes):
                        raise InvalidCase(recs)
                    e.deliver(R.frame(stepped.SPA_ID, stepped.CLIENT_ID, R.partial_update(changes)), stepped.SPA_ADDR)
                    nstatp += 1
            eng.on_iteration = feed
            ok = stepped.run_until(eng, lambda: spa._is_connected and not eng.inbox and not spa._send_handlers, 40000)
            eng.on_iteration = None
        else:
            spa, ok = stepped.connect_threaded_spa(eng, sim)
        if not ok:
            raise SetupFailed("threaded handshake failed fault-free")
        if spa.struct.status_block != sim.structure.status_block:
            res.fail("C05|block-differs|threaded-handshake", "client block differs from the spa's right after the handshake (partial updates arrived during it)")
            return
        for _ in range(int(case.get("pre", 0))):
            spa.get_and_increment_sequence_counter(False)   # a connection that has been up for a while
        # a second spa object of the same process (another connection): while the first is in the middle of applying an update,
        # nothing of that update may show up in the other connection's decoder
        from geckolib.spa import GeckoSpa
        from geckolib.spa_descriptor import GeckoSpaDescriptor
        from geckolib.driver.protocol.statusblock import GeckoPartialStatusBlockProtocolHandler as _PH
        other = GeckoSpa(GeckoSpaDescriptor(b"IOSother-client", b"SPA0a:0b:0c:0d:0e:0f", "Other", ("10.9.9.9", 10022)))
        other_h = [h for h in other._receive_handlers if isinstance(h, _PH)]
        if not other_h:
            other_h = [_PH(other)]
        orig_replace = spa.struct.replace_status_block_segment
        leaked = []

        def checked_replace(pos, data):
            if other_h[0].changes and not leaked:
                leaked.append(list(other_h[0].changes))
            return orig_replace(pos, data)
        spa.struct.replace_status_block_segment = checked_replace
        start, length = spa.new_log_class.begin, spa.new_log_class.end
        lo, hi = _installed_range(start, length)
        ref = _Ref(spa.struct.status_block)
        s0 = 0 if early else len(eng.sent)
        q = stepped.quiescent(eng, spa)
        sim._clients = [(stepped.CLIENT_ADDR[0], stepped.CLIENT_ADDR[1], stepped.CLIENT_ID, stepped.SPA_ID)]
        for op in case["ops"]:
            k = op[0]
            if k == "statp":
                changes = [(p, bytes.fromhex(h)) for p, h in op[1]]
                if any(p + len(d) > BLOCK or len(d) != 2 for p, d in changes):
                    raise InvalidCase(op)
                content = R.partial_update(changes)
                eng.deliver(R.frame(stepped.SPA_ID, stepped.CLIENT_ID, content), stepped.SPA_ADDR)
                ref.on_statp(content)
                nstatp += 1
            elif k == "simset":
                sim._send_structure_change = True
                try:
                    sim._on_set_value(op[1], 1, op[2])
                finally:
                    sim._send_structure_change = False
                out = list(sim._socket._send_handlers)
                del sim._socket._send_handlers[:]
                for h, d in out:
                    eng.deliver(h.send_bytes, stepped.SPA_ADDR)
                    ref.on_statp(R.unframe(h.send_bytes)[2])
                    nstatp += 1
            elif k == "simpoke":
                d = bytes.fromhex(op[2])[: BLOCK - op[1]]
                sim.structure.set_status_block(_apply(sim.structure.status_block, op[1], d))
            elif k in ("refresh", "lossyrefresh"):
                # the threaded client is driven to quiescence first: its single-slot transfer state
                # is only specified for one transfer at a time
                if not stepped.run_until(eng, q):
                    raise SetupFailed("threaded client not quiescent")
                spa.refresh()
                if not stepped.run_until(eng, q):
                    res.fail("C05|refresh-does-not-finish|threaded", "refresh still pending")
                    return
                snap = sim.structure.status_block
                ref.block = ref.block[:lo] + snap[lo:hi] + ref.block[hi:]
            elif k == "gap":
                t_end = eng.vt.t + float(op[1])
                stepped.run_until(eng, lambda: eng.vt.t >= t_end)
            else:
                raise InvalidCase(op)
        if not stepped.run_until(eng, q):
            raise SetupFailed("threaded client not quiescent at the end")
        if leaked:
            res.fail("C05|decoder-state-shared|threaded", f"while one connection was applying a partial update, the decoder of ANOTHER spa object held {leaked[0][:3]} "
                     f"- pending changes are shared between connections")
        got = spa.struct.status_block
        if got != ref.block:
            bad = [i for i in range(min(len(got), BLOCK)) if got[i] != ref.block[i]][:10]
            res.fail("C05|block-differs|threaded",
                     f"client block differs from the arrival-order fold at bytes {bad} "
                     f"(client {[got[i] for i in bad]} expected {[ref.block[i] for i in bad]}); len={len(got)}")
        acks = [d for _, d, _ in eng.sent[s0:] if b"<DATAS>STATQ" in d]
        if len(acks) != nstatp:
            res.fail("C05|ack-count|threaded", f"{nstatp} partial updates delivered, {len(acks)} STATQ sent")
        for a in acks:
            c = R.unframe(a)
            if c is None or len(c[2]) != 6 or not (1 <= c[2][5] <= 191):
                res.fail("C05|ack-sequence|threaded", f"acknowledgement {a!r}")


def _expand(case):
    """["bigstatp", a, b] -> one ordinary message with (nearly) as many records as its count byte allows (a datagram of well over 1 kB)"""
    ops = []
    for op in case["ops"]:
        if op[0] == "bigstatp":
            n_rec = 200 + int(op[1]) % 56
            ops.append(["statp", [[(257 + int(op[2]) * 2 + i * 3) % (BLOCK - 2), bytes([(i * 7 + int(op[2])) & 255, (i * 3 + 1) & 255]).hex()] for i in range(n_rec)]])
        else:
            ops.append(op)
    return dict(case, ops=ops)


def run_case(case) -> Result:
    case = _expand(case)
    res = Result()
    k = case.get("k")
    if k == "async":
        _run_async(res, case)
    elif k == "threaded":
        _run_threaded(res, case)
    else:
        raise InvalidCase(case)
    res.nontrivial = _classify(case["ops"]) or bool(case.get("early"))
    res.label(k)
    if case.get("early"):
        res.label("updates-during-handshake")
    return res
