"""C02  Pack-table items: write-then-read returns the value, no other bit changes.

The emitted (pos, length, value) of the real accessor (blocking and awaitable path, both
structure classes) is applied to the block the way a spa does (big-endian store) and judged by
the *reference* layout/decoder of vp/packs.py (independent of accessor.py).
"""
import hashlib
import os

from hypothesis import strategies as st

from .. import packs
from ..runner import InvalidCase, Result

ID = "C02"
LEVEL = "exploration"
RULE = (
    "enumerated (a) per distinct item shape (kind,width,bitpos,mask,writable): ALL field contents x "
    "ALL domain values for 1-byte fields and a contents lattice x all values for 2-byte fields "
    "(thorough: all 65536 contents for 2-byte bit-fields); (b) every one of the ~20,500 items with "
    "4 (quick) / 64 (thorough) salt-derived (block, value) pairs; generated: Hypothesis-chosen item, "
    "block and value with the all-other-items-unchanged oracle over the whole cfg+log pair. "
    "Non-trivial = bit-field item whose neighbouring bits are not all zero, or 2-byte item, or "
    "read-only item; distinct by (module, tag, field contents, value)."
)
ASSUMPTIONS = [
    "a spa applies a set-value command as a big-endian 1/2-byte store at the given position",
    "reference layout = constructor arguments written in the generated tables",
]
BUDGET = {
    "quick": {"workers": 16, "examples": 4000, "per_item": 4},
    "thorough": {"workers": 16, "examples": 60000, "per_item": 64},
}


def coverage_extra(tier):
    return {"exhaustive": True,
            "exhaustive_of": "all items visited; per shape all 1-byte field contents x all domain values"
            + ("; all 65536 contents of every 2-byte bit-field shape" if tier == "thorough" else "")}


# ------------------------------------------------------------------ real structures (per worker cache)

_ctx_cache = {}


class _Ctx:
    def __init__(self, plat, cv, lv, cls):
        from geckolib.driver import GeckoAsyncStructure, GeckoStructure

        self.emitted = []
        self.aemitted = []
        if cls == "sync":
            self.struct = GeckoStructure(lambda p, l, v: self.emitted.append((p, l, v)))
        else:
            async def aset(p, l, v):
                self.aemitted.append((p, l, v))

            self.struct = GeckoAsyncStructure(lambda p, l, v: self.emitted.append((p, l, v)), aset)
        packs.build_real(self.struct, plat, cv, lv)
        self.pair = packs.pair(plat, cv, lv)


def ctx(plat, cv, lv, cls) -> _Ctx:
    k = (plat, cv, lv, cls)
    c = _ctx_cache.get(k)
    if c is None:
        if len(_ctx_cache) > 40:
            _ctx_cache.clear()
        c = _ctx_cache[k] = _Ctx(plat, cv, lv, cls)
    return c


def _run_coro(coro):
    try:
        coro.send(None)
    except StopIteration:
        return
    coro.close()
    raise AssertionError("awaitable write path suspended on something other than the structure")


# ------------------------------------------------------------------ domain of an item


def domain_size(it):
    if it.kind == "Enum":
        return len(it.labels)
    if it.kind == "Bool":
        return 2
    return it.capacity


def native_value(it, j, real_acc, block, unit):
    """j-th value of the item's domain in the form a caller passes it"""
    if it.kind == "Enum":
        return it.labels[j]
    if it.kind == "Bool":
        return bool(j)
    if it.kind == "Time":
        return f"{j >> 8:02}:{j & 255:02}"
    if it.kind == "Temp":
        # every representable temperature = what the library shows for raw word j
        return j / 18.0 if unit == "C" else (j + 320) / 10.0
    return j


def string_form(it, v):
    if it.kind in ("Byte", "Word"):
        return str(v)
    if it.kind == "Bool":
        return "True" if v else "false"
    return None


def is_table_defect(it):
    return it.pos + it.width > packs.BLOCK or (it.kind == "Enum" and len(it.labels) > it.capacity)


def shape_sig(m, it):
    if is_table_defect(it):
        return f"table-defect|{m}|{it.tag}"
    return f"{it.kind}|w{it.width}|b{it.bitpos}|m{it.mask}|{'ro' if it.rw is None else 'rw'}"


# ------------------------------------------------------------------ the core oracle


def check_write(res, c: _Ctx, m, it, block, j, form, path, deep=False):
    """one write of domain value j to item `it` on context c with the given block"""
    acc = c.struct.accessors[it.tag]
    c.struct.set_status_block(block)
    unit = c.pair.unit(block) if it.kind == "Temp" else None
    v = native_value(it, j, acc, block, unit)
    if form == "str":
        sv = string_form(it, v)
        if sv is None:
            return
        arg = sv
    else:
        arg = v
    sig = f"C02|{{}}|{shape_sig(m, it)}"
    c.emitted.clear()
    c.aemitted.clear()

    def do(pth):
        if pth == "sync":
            acc.value = arg
            return c.emitted
        _run_coro(acc.async_set_value(arg))
        return c.aemitted

    if it.rw is None:
        for pth in (("sync", "async") if path == "both" else (path,)):
            try:
                do(pth)
            except Exception:  # noqa  refusing is the contract
                pass
            else:
                res.fail(sig.format("readonly-accepted"), f"{m}.{it.tag} has no write permission but {pth} write of {arg!r} did not raise")
            if c.emitted or c.aemitted:
                res.fail(sig.format("readonly-emitted"), f"{m}.{it.tag}: read-only item emitted {c.emitted or c.aemitted}")
                c.emitted.clear()
                c.aemitted.clear()
        return
    try:
        out = list(do("sync" if path == "both" else path))
    except Exception as exc:  # noqa
        res.fail(sig.format("write-raised"), f"{m}.{it.tag} <- {arg!r} ({path}) raised {exc!r}")
        return
    if len(out) != 1:
        res.fail(sig.format("emission-count"), f"{m}.{it.tag} <- {arg!r}: {len(out)} device writes {out}")
        return
    pos, length, word = out[0]
    if path == "both":
        try:
            out2 = list(do("async"))
        except Exception as exc:  # noqa
            res.fail(sig.format("write-raised"), f"{m}.{it.tag} <- {arg!r} (async) raised {exc!r}")
            return
        if out2 != out:
            res.fail(sig.format("paths-differ"), f"{m}.{it.tag} <- {arg!r}: blocking path emits {out}, awaitable path emits {out2}")
    if length not in (1, 2) or not isinstance(word, int) or not (0 <= word < (1 << (8 * length))) \
            or not isinstance(pos, int) or not (0 <= pos and pos + length <= packs.BLOCK):
        res.fail(sig.format("unencodable-write"), f"{m}.{it.tag} <- {arg!r}: emitted {(pos, length, word)}")
        return
    new = packs.apply_write(block, pos, length, int(word))
    # every bit outside the item's own field unchanged
    lo, hi = it.pos, it.pos + it.width
    if new[:lo] != block[:lo] or new[hi:] != block[hi:]:
        res.fail(sig.format("outside-bytes"), f"{m}.{it.tag} <- {arg!r}: write {(pos, length, word)} changes bytes outside {lo}..{hi - 1}")
        return
    x = int.from_bytes(new[lo:hi], "big") ^ int.from_bytes(block[lo:hi], "big")
    if x & ~it.field_mask:
        res.fail(sig.format("neighbour-bits"),
                 f"{m}.{it.tag} <- {arg!r} on field {block[lo:hi].hex()}: write {(pos, length, hex(word))} flips bits {x & ~it.field_mask:#x} outside the item's mask {it.field_mask:#x}")
    # reads back the value (reference decoder and the real accessor)
    if it.kind == "Temp":
        back_ref = it.raw(new)
        ok = back_ref == j
        back = back_ref
    else:
        back = it.decode(new)
        ok = back == v
    if not ok:
        res.fail(sig.format("readback"), f"{m}.{it.tag} <- {arg!r} on field {block[lo:hi].hex()}: after applying {(pos, length, hex(word))} the item reads {back!r}")
    c.struct.set_status_block(new)
    try:
        rb = acc.value
    except Exception as exc:  # noqa
        rb = exc
    if it.kind == "Temp":
        good = isinstance(rb, float) and abs(rb - v) < 1e-9
    else:
        good = (rb == v) and type(rb) is type(v)
    if not good:
        res.fail(sig.format("readback-real"), f"{m}.{it.tag} <- {arg!r}: accessor reads back {rb!r}")
    if it.kind == "Temp" and path == "both" and form != "str":
        # the two write paths must also agree on temperatures the device cannot represent exactly (they are rounded onto the
        # device grid: C14 judges the rounding, here only that both paths emit the same write), float and string form
        c.struct.set_status_block(block)
        for dv in (0.01, 0.03, 0.04, 0.07, -0.02):
            for arg2 in (round(v + dv, 2), str(round(v + dv, 2))):
                if float(arg2) < 0:
                    continue
                c.emitted.clear()
                c.aemitted.clear()
                try:
                    acc.value = arg2
                    e1 = list(c.emitted)
                    _run_coro(acc.async_set_value(arg2))
                    e2 = list(c.aemitted)
                except Exception as exc:  # noqa
                    res.fail(sig.format("write-raised"), f"{m}.{it.tag} <- {arg2!r} raised {exc!r}")
                    break
                if e1 != e2:
                    res.fail(sig.format("paths-differ"), f"{m}.{it.tag} <- {arg2!r} ({unit}): blocking path emits {e1}, awaitable path emits {e2}")
                    break
    if deep:
        # every other item of the pair whose field is disjoint decodes as before
        mine = set(it.bytes_range())
        for tag, other in c.pair.items.items():
            if other is it or other.pos + other.width > packs.BLOCK:
                continue
            if mine & set(other.bytes_range()):
                if other.width == it.width and other.pos == it.pos and not (other.field_mask & it.field_mask):
                    pass  # same bytes, disjoint bits: must not change
                else:
                    continue
            if other.kind == "Temp" and it.tag == "TempUnits":
                a, b = other.raw(block), other.raw(new)
            else:
                a, b = other.stored(block), other.stored(new)
            if a != b:
                res.fail(sig.format("other-item-changed"), f"{m}.{it.tag} <- {arg!r} changed {tag}: {a!r} -> {b!r}")
                break


# ------------------------------------------------------------------ enumerated part

_TABLE = None


def _partner(m):
    kind, plat, ver = packs.classify(m)
    v = packs.platforms()[plat]
    if kind == "cfg":
        return plat, ver, v["log"][0]
    return plat, v["cfg"][0], ver


def _table():
    """(items list, shape representatives)"""
    global _TABLE
    if _TABLE is None:
        items = []
        shapes = {}
        for m in packs.module_names():
            if packs.classify(m)[0] == "pack":
                continue
            for tag, it in sorted(packs.ref_module(m)[1].items()):
                items.append((m, tag))
                if is_table_defect(it):
                    continue
                k = (it.kind, it.width, it.bitpos, it.mask, it.rw is None)
                cur = shapes.get(k)
                if cur is None or domain_size(it) > domain_size(packs.ref_module(cur[0])[1][cur[1]]):
                    shapes[k] = (m, tag)
        _TABLE = (items, [shapes[k] for k in sorted(shapes, key=str)])
    return _TABLE


_SLAB = 2048


def _shape_cases(tier):
    cases = []
    for m, tag in _table()[1]:
        it = packs.ref_module(m)[1][tag]
        if it.width == 1:
            cases.append({"k": "shape", "m": m, "tag": tag, "c0": 0, "c1": 256, "step": 1})
        elif it.mask is not None and tier == "thorough":
            for c0 in range(0, 65536, _SLAB):
                cases.append({"k": "shape", "m": m, "tag": tag, "c0": c0, "c1": c0 + _SLAB, "step": 1})
        elif it.mask is not None:
            for c0 in range(0, 65536, 8192):
                cases.append({"k": "shape", "m": m, "tag": tag, "c0": c0, "c1": c0 + 8192, "step": 67})
        else:
            # full-width 2-byte items: all 65536 values on a few existing contents
            for c0 in range(0, 65536, 4096):
                cases.append({"k": "shape2", "m": m, "tag": tag, "v0": c0, "v1": c0 + 4096,
                              "step": 1 if tier == "thorough" else 7})
    return cases


_enum_cache = {}


def enumerated(tier):
    if tier not in _enum_cache:
        salt = int(os.environ.get("VERIF_SEED", "1"))
        per = BUDGET[tier]["per_item"]
        shape_cases = _shape_cases(tier)
        items = _table()[0]
        _enum_cache[tier] = (shape_cases, items, salt, per)
    shape_cases, items, salt, per = _enum_cache[tier]
    mods = [n_ for n_ in packs.module_names() if packs.classify(n_)[0] != "pack"]

    def fn(i):
        if i < len(shape_cases):
            return shape_cases[i]
        if i < len(shape_cases) + len(items):
            m, tag = items[i - len(shape_cases)]
            return {"k": "item", "m": m, "tag": tag, "salt": salt, "n": per}
        return {"k": "overlap", "m": mods[i - len(shape_cases) - len(items)]}

    return len(shape_cases) + len(items) + len(mods), fn


def _prng_bytes(*parts, n):
    out = b""
    ctr = 0
    seed = repr(parts).encode()
    while len(out) < n:
        out += hashlib.blake2b(seed + ctr.to_bytes(4, "big")).digest()
        ctr += 1
    return out[:n]


# ------------------------------------------------------------------ generated part


def strategy(tier):
    items = _table()[0]
    return st.builds(
        lambda idx, blk, fill, j, form, cls, path: {
            "k": "gen", "i": idx, "field": blk, "fill": fill, "j": j, "form": form, "cls": cls, "path": path},
        st.integers(0, len(items) - 1),
        st.integers(0, 65535),
        st.sampled_from([0, 255, 0x55, 0xAA, -1]),
        st.integers(0, 65535),
        st.sampled_from(["native", "native", "str"]),
        st.sampled_from(["sync", "async"]),
        st.sampled_from(["both", "both", "sync", "async"]),
    )


def _block_with_field(it, field, fill, key):
    if fill == -1:
        base = bytearray(_prng_bytes("blk", key, n=packs.BLOCK))
    else:
        base = bytearray([fill]) * packs.BLOCK
    if it.pos + it.width <= packs.BLOCK:
        base[it.pos : it.pos + it.width] = (field % (1 << (8 * it.width))).to_bytes(it.width, "big")
    return bytes(base)


def _nontrivial(it, field):
    if it.rw is None:
        return True
    if it.width == 2:
        return True
    if it.mask is not None and (field & ~it.field_mask & ((1 << (8 * it.width)) - 1)):
        return True
    return False


_OVERLAP_PIN = None


def _overlap_pin():
    global _OVERLAP_PIN
    if _OVERLAP_PIN is None:
        import gzip, json
        path = os.path.join(os.path.dirname(os.path.dirname(os.path.dirname(os.path.abspath(__file__)))), "pins", "overlaps-236b7b1.json.gz")
        _OVERLAP_PIN = {k: {tuple(p_) for p_ in v} for k, v in json.load(gzip.open(path, "rt")).items()}
    return _OVERLAP_PIN


def _check_overlaps(res, m):
    """two items of one table that own a common bit cannot both be written without changing the other; the audited tables contain
    such pairs on purpose (a byte and the flags inside it) - those are pinned - any further pair is a table slip"""
    pin = _overlap_pin().get(m)
    if pin is None:
        return 0        # a table module added after the audit: no pin to compare with
    items = packs.ref_module(m)[1]
    L = [(t, it.field_mask << (8 * (packs.BLOCK - it.pos - it.width))) for t, it in items.items() if it.pos + it.width <= packs.BLOCK]
    n = 0
    for i in range(len(L)):
        for j in range(i + 1, len(L)):
            if L[i][1] & L[j][1]:
                n += 1
                pair_ = tuple(sorted([L[i][0], L[j][0]]))
                if pair_ not in pin:
                    a, b = items[pair_[0]], items[pair_[1]]
                    res.fail(f"C02|table-overlap|{m}|{pair_[0]}|{pair_[1]}",
                             f"{m}: {pair_[0]} (byte {a.pos}, width {a.width}, mask {a.field_mask:#x}) and {pair_[1]} (byte {b.pos}, width {b.width}, "
                             f"mask {b.field_mask:#x}) own common bits - writing either changes the other (not an alias pair of the audited tables)")
    return n


def run_case(case) -> Result:
    res = Result()
    k = case.get("k")
    if k == "overlap":
        n = _check_overlaps(res, case["m"])
        res.nontrivial = n > 0
        res.key = ("overlap", case["m"])
        res.label("table-overlap-scan")
        return res
    if k in ("shape", "shape2", "item"):
        m, tag = case["m"], case["tag"]
        try:
            it = packs.ref_module(m)[1][tag]
        except KeyError:
            raise InvalidCase(case)
        plat, cv, lv = _partner(m)
    if k == "shape":
        n = 0
        dom = domain_size(it)
        for cls in ("sync", "async"):
            c = ctx(plat, cv, lv, cls)
            for contents in range(case["c0"], case["c1"], case["step"]):
                blk = _block_with_field(it, contents, 0x5A, None)
                for j in range(dom):
                    check_write(res, c, m, it, blk, j, "native", "both" if cls == "async" else "sync")
                    n += 1
                if res.violations:
                    break
        res.nontrivial = True
        res.key = ("shape", m, tag, case["c0"], case["c1"], case["step"])
        res.label("shape-slab")
        res.labels.extend(["shape-pairs"] * 0)
        res.key = list(res.key)
        _count(res, "shape_pairs_checked", n)
    elif k == "shape2":
        n = 0
        c = ctx(plat, cv, lv, "async")
        for unit_try in range(2):
            for j in range(case["v0"], case["v1"], case["step"]):
                blk = _block_with_field(it, (j * 40503) & 0xFFFF, 0xA5 if unit_try else 0x00, None)
                check_write(res, c, m, it, blk, j, "native", "both")
                n += 1
            if it.kind != "Temp" or res.violations:
                break
        res.nontrivial = True
        res.key = ["shape2", m, tag, case["v0"], case["v1"], case["step"]]
        res.label("shape2-slab")
        _count(res, "shape_pairs_checked", n)
    elif k == "item":
        dom = domain_size(it)
        rnd = _prng_bytes("item", m, tag, case["salt"], n=8 * case["n"])
        nt = False
        for q in range(case["n"]):
            r = int.from_bytes(rnd[8 * q : 8 * q + 8], "big")
            field, j, sel = r & 0xFFFF, (r >> 16) % max(dom, 1), (r >> 40)
            cls = "async" if sel & 1 else "sync"
            c = ctx(plat, cv, lv, cls)
            blk = _block_with_field(it, field, -1, (m, tag, q, case["salt"]))
            form = "str" if (sel >> 1) % 4 == 0 else "native"
            check_write(res, c, m, it, blk, j, form, "both" if cls == "async" else "sync", deep=(q == 0))
            nt = nt or _nontrivial(it, field)
        res.nontrivial = nt
        res.key = ["item", m, tag]
        res.label("item-" + it.kind)
        _count(res, "item_pairs_checked", case["n"])
    elif k == "gen":
        items = _table()[0]
        m, tag = items[case["i"] % len(items)]
        it = packs.ref_module(m)[1][tag]
        plat, cv, lv = _partner(m)
        cls = case["cls"]
        if cls not in ("sync", "async"):
            raise InvalidCase(case)
        path = case["path"] if cls == "async" else "sync"
        c = ctx(plat, cv, lv, cls)
        dom = domain_size(it)
        j = case["j"] % max(dom, 1)
        blk = _block_with_field(it, case["field"], case["fill"], ("gen", m, tag))
        check_write(res, c, m, it, blk, j, case["form"], path, deep=True)
        res.nontrivial = _nontrivial(it, case["field"])
        res.key = ["gen", m, tag, case["field"] % (1 << (8 * it.width)), j, case["form"], cls, path]
        res.label("gen-" + it.kind, "gen-" + ("ro" if it.rw is None else "rw"))
    else:
        raise InvalidCase(case)
    return res


def _count(res, name, n):
    # counts are carried as a label with multiplicity (merged by the runner's histogram)
    res.labels.append((name, n))
