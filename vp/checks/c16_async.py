"""C16 wire oracle for the async client: a really connected GeckoAsyncSpa (virtual loop, in-process
simulator) issues every request kind it has; the sequence byte of each datagram on the wire is
judged against the successor model (pack commands 192..255, everything else 1..191)."""
from .. import clients, refcodec as R, vworld
from ..runner import HarnessError, InvalidCase, SetupFailed

EXPECT = {  # op -> (verb on the wire, is pack command)
    "press": (b"SPACK", True), "set": (b"SPACK", True), "getwc": (b"GETWC", False), "setwc": (b"SETWC", False),
    "rem": (b"REQRM", False), "refresh": (b"STATU", False), "channel": (b"CURCH", False), "statp": (b"STATQ", False),
}


def run(res, case):
    from .c16 import Model
    from geckolib.driver import GeckoGetChannelProtocolHandler, GeckoStatusBlockProtocolHandler

    W = vworld.World()
    sim = vworld.make_simulator()
    peer = W.add_peer(sim)
    stats = {"cmd": 0, "wrap": False}

    def seq_datagrams(w0):
        out = []
        for t, d, src, dst, data, fate in W.wire[w0:]:
            if d != "c2s":
                continue
            parts = R.unframe(data)
            if parts is None:
                continue
            content = parts[2]
            verb = content[:5]
            if verb == b"APING" or len(content) < 6:
                continue
            out.append((verb, content[5]))
        return out

    async def main(W):
        spa, tm, ev = await clients.connect_async_spa(W, peer)
        try:
            proto = spa._protocol
            m = Model()
            # the handshake consumed protocol numbers: take the model to where the wire says the connection is
            hs = [s for v, s in seq_datagrams(0) if v in (b"AVERS", b"CURCH", b"SFILE", b"STATU")]
            if not hs:
                raise SetupFailed("no handshake requests on the wire")
            for _ in range(len(hs)):
                m.next(False)
            if hs != list(range(1, len(hs) + 1)):
                res.fail("C16|wire_async|handshake", f"handshake requests carry sequences {hs}, expected 1..{len(hs)}")
                return
            for _ in range(int(case["pre"][0])):
                proto.get_and_increment_sequence_counter(False)
                m.next(False)
            for _ in range(int(case["pre"][1])):
                proto.get_and_increment_sequence_counter(True)
                m.next(True)
            RESP = {"press": b"PACKS", "set": b"PACKS", "getwc": b"WCGET", "rem": b"RMREQ", "channel": b"CHCUR"}
            for ix, op in enumerate(case["ops"]):
                clients.keep_ping_fresh(spa, W)
                w0 = len(W.wire)
                k = op[0]
                if k == "reconnect":
                    # the same spa object is disconnected and connected again: a new connection numbers from the start, in both cycles
                    await spa.disconnect()
                    await W.sleep(0.3)
                    w1 = len(W.wire)
                    await spa.connect()
                    if not spa.is_connected:
                        raise SetupFailed("fault-free reconnect of the same spa object failed")
                    for t in list(tm._tasks):
                        if t.get_name() in ("SPA:Ping loop", "SPA:Refresh loop") and not t.done():
                            t.cancel()
                    await W.sleep(0.05)
                    proto = spa._protocol
                    hs2 = [s_ for v, s_ in seq_datagrams(w1) if v in (b"AVERS", b"CURCH", b"SFILE", b"STATU")]
                    if hs2 != list(range(1, len(hs2) + 1)):
                        res.fail("C16|wire_async|reconnect|handshake", f"after a reconnect of the same spa object the handshake requests carry {hs2}, expected 1..{len(hs2)}")
                        return
                    m = Model()
                    for _ in range(len(hs2)):
                        m.next(False)
                    stats["reconnect"] = True
                    continue
                if k not in EXPECT:
                    raise InvalidCase(op)
                n_exp = 1
                if ix in case.get("lose", []) and k in RESP:
                    # the reply to the first attempt is lost: the library builds the request again after timeout + pause
                    n_exp = 2
                    left = {"n": 1}

                    def flt(data, _v=RESP[k]):
                        if left["n"] > 0 and b"<DATAS>" + _v in data:
                            left["n"] -= 1
                            return "drop"
                        return None
                    W.s2c_filter = flt
                    stats["lost"] = True
                    # the gates look at the age of the last ping: keep it fresh while the retry is pending
                    import asyncio as _a

                    async def fresh():
                        while True:
                            clients.keep_ping_fresh(spa, W)
                            await W.sleep(0.5)
                    keeper = _a.ensure_future(fresh())
                else:
                    keeper = None
                if k == "press":
                    await spa.async_press(int(op[1]) % 24)
                elif k == "set":
                    await spa._on_async_set_value(int(op[1]) % 1023, 1 + int(op[2]) % 2, int(op[3]) % 256)
                elif k == "getwc":
                    await spa.async_get_watercare()
                elif k == "setwc":
                    # the bundled simulator does not answer SETWC: let the first attempt time out, inspect it, move on
                    import asyncio
                    t = asyncio.ensure_future(spa.async_set_watercare(int(op[1]) % 5))
                    await W.sleep(1.0)
                    t.cancel()
                    try:
                        await t
                    except asyncio.CancelledError:
                        pass
                elif k == "rem":
                    await spa.async_get_reminders()
                elif k == "refresh":
                    await spa.struct.get(proto, lambda: GeckoStatusBlockProtocolHandler.request(
                        proto.get_and_increment_sequence_counter(False), 256, 80, parms=spa.sendparms))
                elif k == "channel":
                    await proto.get(lambda: GeckoGetChannelProtocolHandler.request(proto.get_and_increment_sequence_counter(False), parms=spa.sendparms))
                elif k == "statp":
                    body = R.partial_update([(int(op[1]) % 1022, bytes([int(op[2]) % 256, 7]))])
                    W.inject(W.transports[-1], R.frame(sim.vp_identifier, clients.CLIENT_ID, body), peer.addr)
                    await W.sleep(0.6)
                await W.sleep(0.3)
                if keeper is not None:
                    if k in ("press", "set"):
                        # fire-and-forget commands: wait for the retry to have gone out
                        for _ in range(60):
                            if sum(1 for v, _s in seq_datagrams(w0) if v == b"SPACK") >= 2:
                                break
                            await W.sleep(0.25)
                        await W.sleep(0.5)
                    keeper.cancel()
                    W.s2c_filter = None
                verb_exp, is_cmd = EXPECT[k]
                got = [(v, s) for v, s in seq_datagrams(w0)]
                mine = [(v, s) for v, s in got if v == verb_exp]
                other = [(v, s) for v, s in got if v != verb_exp]
                if n_exp == 2 and len(mine) == 2 and not other:
                    lo, hi = (192, 255) if is_cmd else (1, 191)
                    for v, s in mine:
                        exp = m.next(is_cmd)
                        if not (lo <= s <= hi):
                            res.fail(f"C16|wire_async|{k}|range", f"retried {v!r} carries sequence {s}, expected {lo}..{hi}")
                        elif s != exp:
                            res.fail(f"C16|wire_async|{k}|retry-successor", f"{v!r} sent twice (first reply lost) with sequences {[x for _, x in mine]}; "
                                     f"the successor in its cycle is {exp}")
                            if is_cmd:
                                m.c = s
                            else:
                                m.p = s
                    if is_cmd:
                        stats["cmd"] += 1
                    continue
                if len(mine) != 1 or other:
                    res.fail(f"C16|wire_async|{k}|count", f"{op}: datagrams with a sequence byte on the wire: {got}")
                    for v, s in got:   # keep the model in step
                        m.next(192 <= s <= 255)
                    continue
                v, s = mine[0]
                lo, hi = (192, 255) if is_cmd else (1, 191)
                if is_cmd:
                    stats["cmd"] += 1
                if not (lo <= s <= hi):
                    res.fail(f"C16|wire_async|{k}|range", f"{v!r} carries sequence {s}, expected {lo}..{hi} ({'pack command' if is_cmd else 'protocol request'})")
                    m.next(not is_cmd)
                    continue
                exp = m.next(is_cmd)
                if s != exp:
                    res.fail(f"C16|wire_async|{k}|successor", f"{v!r} carries sequence {s}, the successor in its cycle is {exp}")
                    if is_cmd:
                        m.c = s
                    else:
                        m.p = s
            stats["wrap"] = m.wrapped
        finally:
            await spa.disconnect()
            await clients.shutdown(tm)

    W.run(main)
    res.nontrivial = stats["cmd"] > 0
    res.label("wire_async")
    if stats["wrap"]:
        res.label("wire_async-wrap")
    if stats.get("lost"):
        res.label("wire_async-retried-request")
    if stats.get("reconnect"):
        res.label("wire_async-reconnect-same-object")
