"""C07  Dispatch: each datagram consumed once, only by a capable, addressed consumer.

A connected async client (real consumer tasks) receives generated arrival scripts of solicited,
unsolicited, unknown, late, mis-addressed and malformed-framing datagrams while generated
requests are outstanding, under timer jitter.  The receive queue is replaced by a recording
subclass; an independent table says which task may take which verb; a reference model predicts
the only permitted effects.
"""
import asyncio

from hypothesis import strategies as st

from .. import clients, recording, refcodec as R, vworld
from ..runner import HarnessError, InvalidCase, Result, SetupFailed

ID = "C07"
LEVEL = "exploration"
J_MAX = 0.05
RULE = (
    "generated arrival scripts (<=16 entries: time gap + datagram kind) on a connected client with "
    "0..4 generated outstanding requests (CURCH/GETWC/REQRM/AVERS answered by the simulator), client "
    "event-handler suspensions and a timer jitter tape (J<=50 ms). Kinds: valid framed STATP/RFERR/WCERR, "
    "framed unknown verb, raw junk, late reply without waiter, framed packet with wrong source and/or "
    "destination identifier, malformed framing (empty, missing tags, truncated). Non-trivial = >=1 "
    "unknown/unsolicited/mis-addressed/malformed datagram queued ahead of a solicited reply or of a valid "
    "update; distinct by canonical case."
)
ASSUMPTIONS = [
    "schedules = jitter-tape family (non-negative timer latencies <= 50 ms, FIFO ready queue), not arbitrary pre-emption",
    "verb -> handler family table is the harness's own (from the protocol description)",
    "head-residence bound asserted: 6 x (polling interval + J); analytic worst case of the repaired catch-all consumer is 5 intervals + 3J (finish a 2-interval grace for a consumed head, 1 idle poll, 2-interval grace)",
]
BUDGET = {
    "quick": {"workers": 16, "examples": 4800},
    "thorough": {"workers": 16, "examples": 32000},
}
BLOCK = 1024

FAMILY = {
    b"APING": "ping", b"AVERS": "version", b"SVERS": "version", b"CURCH": "channel", b"CHCUR": "channel",
    b"SFILE": "configfile", b"FILES": "configfile", b"STATU": "status", b"STATV": "status",
    b"STATP": "partial", b"STATQ": "partial", b"SPACK": "pack", b"PACKS": "pack",
    b"GETWC": "watercare", b"WCGET": "watercare", b"REQWC": "watercare", b"WCSET": "watercare",
    b"WCERR": "wcerr", b"REQRM": "reminders", b"RMREQ": "reminders", b"UPDTS": "firmware", b"SUPDT": "firmware",
    b"RFERR": "rferr",
}
TASK_FAMILIES = {
    "SPA:Packet handler": {"packet"},
    "SPA:Partial status block handler": {"partial"},
    "SPA:RFErr handler": {"rferr"},
    "SPA:WCErr handler": {"wcerr"},
    "VP:CURCH": {"channel"}, "VP:GETWC": {"watercare"}, "VP:REQRM": {"reminders"}, "VP:AVERS": {"version"},
}
CATCH_ALL = "SPA:Unhandled packet"


def family_of(data: bytes):
    if data.startswith(b"<PACKT>") and data.endswith(b"</PACKT>"):
        return "packet"
    return FAMILY.get(bytes(data[:5]))


WRONG_SRC = b"SPAff:ff:ff:ff:ff:ff"
WRONG_DST = b"IOSsomebody-else"

KINDS = ["statp", "rferr", "wcerr", "unknown", "junk", "late", "wrongsrc", "wrongdst", "wrongboth",
         "mal_empty", "mal_nodescn", "mal_nodatas", "mal_trunc", "mal_reversed"]


# kinds that no handshake step may take for its reply and that carry no meaning for the client
EARLY_KINDS = ["unknown", "junk", "wrongsrc", "wrongdst", "wrongboth", "mal_empty", "mal_nodescn", "mal_nodatas",
               "mal_trunc", "mal_reversed"]


def strategy(tier):
    entry = st.tuples(st.sampled_from([0.0, 0.0, 0.01, 0.05, 0.1, 0.15, 0.3, 0.7]), st.sampled_from(KINDS),
                      st.integers(256, 1000), st.binary(min_size=2, max_size=2).map(bytes.hex)).map(list)
    # [delay, verb, number of replies that get lost first (the request is retried after timeout + pause)]
    req = st.tuples(st.sampled_from([0.0, 0.1, 0.25, 0.5, 1.0]), st.sampled_from(["CURCH", "GETWC", "REQRM", "AVERS"]), st.sampled_from([0, 0, 0, 1])).map(list)
    # a burst of n equal datagrams at fixed spacing: floods (many waiting at once) and streams that are still arriving at the instant
    # a request's retry pause ends (request time + 4 s timeout + 2 s pause)
    burst = st.one_of(st.none(), st.none(), st.tuples(st.sampled_from([0.0, 0.3, 3.5, 5.0, 5.5, 5.8, 6.3]), st.sampled_from([10, 40, 70, 90]),
                                                      st.sampled_from([0, 0, 20, 50, 100]), st.sampled_from(["statp", "statp", "rferr", "unknown", "junk", "wrongdst"])).map(list))
    jitter = st.one_of(st.just([]), st.lists(st.sampled_from([0.0, 0.0, 0.005, 0.02, 0.049]), min_size=1, max_size=7))
    # noise that arrives while the connection handshake is still running (delay after the endpoint exists)
    early = st.one_of(st.just([]), st.just([]), st.lists(
        st.tuples(st.sampled_from([0.0, 0.05, 0.2, 0.5, 1.0, 1.5, 2.5, 4.0]), st.sampled_from(EARLY_KINDS)).map(list),
        min_size=1, max_size=4))
    # the timing table is (re-)selected - which wakes every config-aware sleeper - n times, gap ms apart, from t_start on
    cfg = st.one_of(st.none(), st.none(), st.none(), st.tuples(st.sampled_from([0.0, 0.2, 0.5, 1.0]), st.integers(5, 60), st.sampled_from([10, 20, 30, 70]),
                                                                 st.sampled_from(["same", "alternate"])).map(list))
    pentry = st.tuples(st.sampled_from([0.0, 0.0, 0.01, 0.05, 0.1, 0.3]), st.sampled_from(["statp", "statp", "rferr", "wcerr", "unknown", "junk"]),
                       st.integers(256, 1000), st.binary(min_size=2, max_size=2).map(bytes.hex), st.integers(0, 1)).map(list)
    pair = st.builds(lambda sc: {"k": "pair", "script": sc}, st.lists(pentry, min_size=1, max_size=12))
    single = st.builds(
        lambda script, reqs, j, susp, early, burst, cfg: dict({"script": script, "reqs": reqs, "jitter": j, "suspend": susp, "early": early},
                                                             **({"burst": burst} if burst else {}), **({"cfg": cfg} if cfg else {})),
        st.lists(entry, min_size=1, max_size=16), st.lists(req, max_size=4), jitter,
        st.lists(st.sampled_from([0.0, 0.0, 0.05, 0.35, 1.2]), max_size=6), early, burst, cfg)
    return st.integers(0, 9).flatmap(lambda i: pair if i == 0 else single)


def _datagram(kind, pos, hx):
    data = bytes.fromhex(hx)
    ok_src, ok_dst = clients.SPA_ID, clients.CLIENT_ID
    body = R.partial_update([(pos, data)])
    if kind == "statp":
        return R.frame(ok_src, ok_dst, body)
    if kind == "rferr":
        return R.frame(ok_src, ok_dst, R.rferr())
    if kind == "wcerr":
        return R.frame(ok_src, ok_dst, b"WCERR")
    if kind == "unknown":
        return R.frame(ok_src, ok_dst, b"XYZZY" + data)
    if kind == "junk":
        return b"\x00garbage " + data
    if kind == "late":
        return R.frame(ok_src, ok_dst, R.channel_response(7, 9))
    if kind == "wrongsrc":
        return R.frame(WRONG_SRC, ok_dst, body)
    if kind == "wrongdst":
        return R.frame(ok_src, WRONG_DST, body)
    if kind == "wrongboth":
        return R.frame(WRONG_SRC, WRONG_DST, R.rferr())
    if kind == "mal_empty":
        return b"<PACKT></PACKT>"
    if kind == "mal_nodescn":
        return b"<PACKT><SRCCN>" + ok_src + b"</SRCCN><DATAS>" + body + b"</DATAS></PACKT>"
    if kind == "mal_nodatas":
        return b"<PACKT><SRCCN>" + ok_src + b"</SRCCN><DESCN>" + ok_dst + b"</DESCN></PACKT>"
    if kind == "mal_trunc":
        return b"<PACKT><SRCCN>" + ok_src + b"</SRCCN><DESCN>" + ok_dst + b"</DESCN><DATAS>" + body + b"</DAT</PACKT>"
    if kind == "mal_reversed":
        return b"<PACKT><DESCN>" + ok_dst + b"</DESCN><SRCCN>" + ok_src + b"</SRCCN><DATAS>" + body + b"</DATAS></PACKT>"
    raise InvalidCase(kind)


def _run_pair(case) -> Result:
    """two connections in one process (two spas, or a reconnect next to a live connection): a datagram received on one
    connection is consumed on that connection only.  The library's own queues are left in place here (no recording), the
    oracle is the effect: each client's block / events / acknowledgements follow from the datagrams ITS endpoint received."""
    from geckolib import GeckoSpaEvent

    res = Result()
    W = vworld.World()
    ids = [b"SPA01:02:03:04:05:06", b"SPA0a:0b:0c:0d:0e:0f"]
    peers = [W.add_peer(vworld.make_simulator(identifier=i, name=f"Spa {n}")) for n, i in enumerate(ids)]
    script = [(float(g), k, int(pos), hx, int(to) % 2) for g, k, pos, hx, to in case["script"]]
    for _, k, _, _, _ in script:
        if k not in ("statp", "rferr", "wcerr", "unknown", "junk"):
            raise InvalidCase(k)

    async def main(W):
        conns = []
        tms = []
        try:
            for peer in peers:
                spa, tm, ev = await clients.connect_async_spa(W, peer)
                tms.append(tm)
                conns.append({"spa": spa, "ev": ev, "tr": W.transports[-1], "peer": peer, "e0": len(ev.log), "block": spa.struct.status_block,
                              "statp": 0, "rferr": 0, "wcerr": 0})
            w0 = len(W.wire)
            for gap, kind, pos, hx, to in script:
                if gap:
                    await W.sleep(gap)
                c = conns[to]
                p_ = min(pos, BLOCK - 2)
                data = bytes.fromhex(hx)
                body = {"statp": R.partial_update([(p_, data)]), "rferr": R.rferr(), "wcerr": b"WCERR", "unknown": b"XYZZY" + data}.get(kind)
                dg = R.frame(ids[to], clients.CLIENT_ID, body) if body is not None else b"\x00garbage " + data
                W.inject(c["tr"], dg, c["peer"].addr)
                if kind == "statp":
                    c["block"] = c["block"][:p_] + data + c["block"][p_ + 2:]
                    c["statp"] += 1
                elif kind in ("rferr", "wcerr"):
                    c[kind] += 1
            await W.drain([c["spa"]._protocol.queue for c in conns], quiet=1.5, limit=200)
            await W.sleep(2.0)
            for n, c in enumerate(conns):
                spa = c["spa"]
                if spa.struct.status_block != c["block"]:
                    bad = [k for k in range(BLOCK) if spa.struct.status_block[k] != c["block"][k]][:8]
                    res.fail("C07|cross-talk|block", f"connection {n}: block differs from the fold of the updates its own endpoint received, at {bad}")
                evs = [e for _, e, _ in c["ev"].log[c["e0"]:]]
                if evs.count(GeckoSpaEvent.ERROR_RF_ERROR) != c["rferr"] or evs.count(GeckoSpaEvent.RUNNING_SPA_WATER_CARE_ERROR) != c["wcerr"]:
                    res.fail("C07|cross-talk|events", f"connection {n}: received {c['rferr']} RFERR / {c['wcerr']} WCERR but raised "
                             f"{evs.count(GeckoSpaEvent.ERROR_RF_ERROR)} / {evs.count(GeckoSpaEvent.RUNNING_SPA_WATER_CARE_ERROR)} events")
                acks = sum(1 for w in W.wire[w0:] if w[1] == "c2s" and b"<DATAS>STATQ" in w[4] and b"<DESCN>" + ids[n] in w[4])
                if acks != c["statp"]:
                    res.fail("C07|cross-talk|acks", f"connection {n}: {c['statp']} partial updates received, {acks} acknowledgements sent to that spa")
        finally:
            for tm in tms:
                await clients.shutdown(tm)

    W.run(main)
    res.nontrivial = len({to for *_, to in script}) == 2
    res.label("two-connections")
    return res


def run_case(case) -> Result:
    if case.get("k") == "pair":
        return _run_pair(case)
    from geckolib import GeckoSpaEvent
    from geckolib.driver import (GeckoGetChannelProtocolHandler, GeckoRemindersProtocolHandler,
                                 GeckoVersionProtocolHandler, GeckoWatercareProtocolHandler)

    res = Result()
    jitter = [min(float(j), J_MAX) for j in case.get("jitter", [])]
    W = vworld.World(jitter=jitter or None)
    sim = vworld.make_simulator()
    peer = W.add_peer(sim)
    J = max(jitter) if jitter else 0.0
    noise_kinds = {"unknown", "junk", "late", "wrongsrc", "wrongdst", "wrongboth", "mal_empty", "mal_nodescn",
                   "mal_nodatas", "mal_trunc", "mal_reversed"}

    async def main(W):
        early = [(float(d), k) for d, k in case.get("early", [])]
        for _, k in early:
            if k not in EARLY_KINDS:
                raise InvalidCase(k)
        n_tr = len(W.transports)

        async def noise_during_handshake():
            while len(W.transports) == n_tr:
                await asyncio.sleep(0.01)
            t_open = W.clock.t
            for d, k in sorted(early):
                if W.clock.t < t_open + d:
                    await W.sleep(t_open + d - W.clock.t)
                W.inject(W.transports[-1], _datagram(k, 300, "beef"), peer.addr)

        injector = asyncio.ensure_future(noise_during_handshake()) if early else None
        try:
            spa, tm, ev = await clients.connect_async_spa(W, peer)
        except SetupFailed as e:
            if not early:
                raise
            # a fault-free handshake with nothing but unclaimed noise in between must still complete: noise leaves the
            # head of the queue within a few polling intervals, long before any handshake request gives up
            res.fail("C07|handshake-blocked-by-noise", f"noise {early} during the handshake: {e}")
            W.expect_leftover = True
            return
        finally:
            if injector is not None:
                injector.cancel()
        try:
            proto = spa._protocol
            q = recording.install_queue(proto, W)
            tr = W.transports[-1]
            suspend = list(case.get("suspend", []))
            base_call = ev.__call__

            class Ev:
                log = ev.log

                async def __call__(self, event, **kw):
                    ev.log.append((W.clock.t, event, kw))
                    if suspend:
                        d = suspend.pop(0)
                        if d > 0:
                            await asyncio.sleep(d)

            spa._event_handler = Ev()
            e0 = len(ev.log)
            w0 = len(W.wire)
            block = spa.struct.status_block
            expected_block = block
            n_valid_statp = n_rferr = n_wcerr = 0
            factories = {
                "CURCH": lambda: GeckoGetChannelProtocolHandler.request(proto.get_and_increment_sequence_counter(False), parms=spa.sendparms),
                "GETWC": lambda: GeckoWatercareProtocolHandler.request(proto.get_and_increment_sequence_counter(False), parms=spa.sendparms),
                "REQRM": lambda: GeckoRemindersProtocolHandler.request(proto.get_and_increment_sequence_counter(False), parms=spa.sendparms),
                "AVERS": lambda: GeckoVersionProtocolHandler.request(proto.get_and_increment_sequence_counter(False), parms=spa.sendparms),
            }
            waiters = []

            async def later(delay, name):
                await W.sleep(delay)
                return await proto.get(factories[name], None, 2)

            lose = {}   # response verb -> replies still to be lost
            RESP = {"CURCH": b"CHCUR", "GETWC": b"WCGET", "REQRM": b"RMREQ", "AVERS": b"SVERS"}

            def lose_filter(data):
                for v, k in lose.items():
                    if k > 0 and b"<DATAS>" + v in data:
                        lose[v] = k - 1
                        return "drop"
                return None
            for r_ in case.get("reqs", []):
                delay, name = r_[0], r_[1]
                if name not in factories:
                    raise InvalidCase(name)
                if len(r_) > 2 and r_[2]:
                    lose[RESP[name]] = lose.get(RESP[name], 0) + min(int(r_[2]), 1)
                waiters.append(asyncio.ensure_future(later(delay, name)))
                waiters[-1].set_name("VP:" + name)
            if lose:
                W.s2c_filter = lose_filter
            cfg = case.get("cfg")
            cfg_task = None
            if cfg:
                from geckolib.config import set_config_mode

                async def reselect():
                    await W.sleep(float(cfg[0]))
                    for i in range(min(int(cfg[1]), 80)):
                        set_config_mode(bool(i % 2) if cfg[3] == "alternate" else False)
                        await W.sleep(max(5, int(cfg[2])) / 1000.0)
                cfg_task = asyncio.ensure_future(reselect())
            burst = case.get("burst")
            burst_task = None
            if burst:
                b_start, b_n, b_gap, b_kind = float(burst[0]), min(int(burst[1]), 100), max(0, int(burst[2])) / 1000.0, burst[3]
                b_dg = _datagram(b_kind, 700, "a55a")

                async def run_burst():
                    nonlocal n_valid_statp, n_rferr, n_wcerr
                    await W.sleep(b_start)
                    for _ in range(b_n):
                        W.inject(tr, b_dg, peer.addr)
                        if b_kind == "statp":
                            n_valid_statp += 1
                        elif b_kind == "rferr":
                            n_rferr += 1
                        elif b_kind == "wcerr":
                            n_wcerr += 1
                        if b_gap:
                            await W.sleep(b_gap)
                burst_task = asyncio.ensure_future(run_burst())
            for gap, kind, pos, hx in case["script"]:
                if gap:
                    await W.sleep(float(gap))
                dg = _datagram(kind, min(pos, BLOCK - 2), hx)
                W.inject(tr, dg, peer.addr)
                if kind == "statp":
                    p = min(pos, BLOCK - 2)
                    expected_block = expected_block[:p] + bytes.fromhex(hx) + expected_block[p + 2:]
                    n_valid_statp += 1
                elif kind == "rferr":
                    n_rferr += 1
                elif kind == "wcerr":
                    n_wcerr += 1
            t_end = W.clock.t + 120
            while ((waiters and not all(w.done() for w in waiters)) or (burst_task is not None and not burst_task.done())) and W.clock.t < t_end:
                await W.sleep(0.2)
            if burst_task is not None:
                await burst_task
            if cfg_task is not None:
                await cfg_task
            W.s2c_filter = None
            await W.drain([q], quiet=1.5, limit=200)
            await W.sleep(2.0)

            # ---- oracle 0: consumer tasks are alive
            for t in tm._tasks:
                if t.get_name().startswith("SPA:") and t.done() and not t.cancelled() and t.get_name() in TASK_FAMILIES | {CATCH_ALL: 1}.keys():
                    res.fail(f"C07|consumer-died|{t.get_name()}", f"{t.get_name()} ended: {t.exception()!r}")
            # ---- oracle 1/2: every put popped exactly once by a capable consumer
            puts = {}
            pops = {}
            for kind_, i, t_, task, extra in q.log:
                if kind_ == "put":
                    puts[i] = t_
                elif kind_ == "pop":
                    pops.setdefault(i, []).append((t_, task, extra))
            for i in puts:
                n = len(pops.get(i, []))
                if n != 1:
                    res.fail(f"C07|pop-count|{n}", f"datagram {q.items[i][:50]!r} was removed {n} times: {pops.get(i)}")
            if None in pops:
                res.fail("C07|pop-on-empty-queue", f"{pops[None]}")
            for i, plist in pops.items():
                if i is None:
                    continue
                data = q.items[i]
                fam = family_of(data)
                for t_, task, marked in plist:
                    if task == CATCH_ALL:
                        continue
                    allowed = TASK_FAMILIES.get(task)
                    if allowed is None:
                        res.fail(f"C07|unknown-popper|{task}", f"{task} removed {data[:40]!r}")
                    elif fam not in allowed:
                        res.fail(f"C07|popped-by-incapable|{task}|{fam}",
                                 f"{task} removed {data[:60]!r} (family {fam}) which it does not accept")
            # ---- oracle 2b: the catch-all's grace.  A datagram whose verb a standing consumer accepts is "unhandled" only if that consumer
            # had its chance: it may be discarded no sooner than one full polling interval after it became the head of the queue
            for i, plist in pops.items():
                if i is None:
                    continue
                fam = family_of(q.items[i])
                for t_, task, marked in plist:
                    if task == CATCH_ALL and fam in ("partial", "rferr", "wcerr", "packet") and q.residence.get(i, 9.9) < vworld.POLL - 1e-6:
                        res.fail(f"C07|discarded-before-owner-could-poll|{fam}", f"{q.items[i][:40]!r} was discarded as unhandled {q.residence[i] * 1000:.0f} ms after it "
                                 f"reached the head of the queue (the consumers poll every {vworld.POLL * 1000:.0f} ms)")
                        break
            # ---- oracle 3: head residence
            bound = 6 * (vworld.POLL + J) + 1e-3
            for i, r in q.residence.items():
                if r > bound:
                    res.fail("C07|head-residence", f"{q.items[i][:40]!r} stayed {r:.3f}s at the queue head (bound {bound:.3f})")
                    break
            # ---- oracle 4: only the permitted effects.  A datagram may legitimately end at the
            # catch-all (e.g. while its owner is suspended in a client event handler), so the
            # expected effects are derived from what the recorded log says was consumed by whom.
            valid_bodies = []   # contents of correctly addressed, well-formed framed packets taken by the packet consumer
            for i_, plist in pops.items():
                if i_ is None:
                    continue
                for t_, task, marked in plist:
                    if task == "SPA:Packet handler":
                        parts = R.unframe(q.items[i_])
                        if parts is not None and parts[0] == clients.SPA_ID and parts[1] == clients.CLIENT_ID:
                            valid_bodies.append(parts[2])
            requeued = [q.items[i_] for kind_, i_, t_, task, extra in q.log if kind_ == "put" and task == "SPA:Packet handler"]
            if sorted(requeued) != sorted(valid_bodies):
                extra_ = [b for b in requeued if b not in valid_bodies][:3]
                res.fail("C07|requeue-effect",
                         f"packet consumer re-queued {len(requeued)} bodies but took {len(valid_bodies)} correctly addressed packets; unexpected: {extra_!r}")
            consumed = {"partial": [], "rferr": 0, "wcerr": 0}
            order = sorted(((plist[0][0], i_) for i_, plist in pops.items() if i_ is not None and plist), key=lambda x: x[0])
            for t_, i_ in order:
                task = pops[i_][0][1]
                data = q.items[i_]
                if task == "SPA:Partial status block handler" and data.startswith(b"STATP"):
                    consumed["partial"].append(data)
                elif task == "SPA:RFErr handler":
                    consumed["rferr"] += 1
                elif task == "SPA:WCErr handler":
                    consumed["wcerr"] += 1
            expected_block = block
            for body in consumed["partial"]:
                for p_, d_ in R.parse_statp(body):
                    expected_block = expected_block[:p_] + d_ + expected_block[p_ + len(d_):]
            if spa.struct.status_block != expected_block:
                got = spa.struct.status_block
                bad = [k for k in range(min(len(got), BLOCK)) if got[k] != expected_block[k]][:8]
                res.fail("C07|block-effect", f"block differs from the fold of the consumed, correctly addressed updates at {bad}")
            evs = [e for _, e, _ in ev.log[e0:]]
            if evs.count(GeckoSpaEvent.ERROR_RF_ERROR) != consumed["rferr"]:
                res.fail("C07|rferr-events", f"{consumed['rferr']} RFERR consumed, {evs.count(GeckoSpaEvent.ERROR_RF_ERROR)} RF error events")
            if evs.count(GeckoSpaEvent.RUNNING_SPA_WATER_CARE_ERROR) != consumed["wcerr"]:
                res.fail("C07|wcerr-events", f"{consumed['wcerr']} WCERR consumed, {evs.count(GeckoSpaEvent.RUNNING_SPA_WATER_CARE_ERROR)} events")
            acks = sum(1 for w in W.wire[w0:] if w[1] == "c2s" and b"<DATAS>STATQ" in w[4])
            if acks != len(consumed["partial"]):
                res.fail("C07|ack-effect", f"{len(consumed['partial'])} partial updates consumed but {acks} acknowledgements were sent")
            if len(consumed["partial"]) > n_valid_statp or consumed["rferr"] > n_rferr or consumed["wcerr"] > n_wcerr:
                res.fail("C07|phantom-datagram", f"consumed {consumed['rferr']} RFERR / {len(consumed['partial'])} STATP / {consumed['wcerr']} WCERR, "
                         f"only {n_rferr}/{n_valid_statp}/{n_wcerr} correctly addressed ones were sent")
            # every solicited request got its reply (nothing blocked it)
            for wtask in waiters:
                if wtask.done() and not wtask.cancelled() and wtask.exception() is None and wtask.result() is None and not jitter and not burst and not any(len(r_) > 2 and r_[2] for r_ in case.get('reqs', [])):
                    res.fail("C07|solicited-reply-lost", f"{wtask.get_name()} got no reply although the simulator answered (nominal schedule)")
                if not wtask.done():
                    wtask.cancel()
                    res.fail("C07|waiter-stuck", f"{wtask.get_name()} did not finish")
        finally:
            await clients.shutdown(tm)

    W.run(main)
    kinds = [k for _, k, _, _ in case["script"]]
    noise_first = False
    seen_noise = False
    for k in kinds:
        if k in noise_kinds:
            seen_noise = True
        elif seen_noise:
            noise_first = True
    res.nontrivial = noise_first or (seen_noise and bool(case.get("reqs")))
    for k in set(kinds):
        res.label("kind-" + k)
    if jitter:
        res.label("jittered")
    if case.get("early"):
        res.label("noise-during-handshake")
    if case.get("cfg"):
        res.label("timing-table-reselected-during-traffic")
    if case.get("burst"):
        res.label("burst-" + str(case["burst"][3]), "flood" if case["burst"][1] > 64 and case["burst"][2] == 0 else "stream")
    if any(len(r_) > 2 and r_[2] for r_ in case.get("reqs", [])):
        res.label("request-retried")
    return res
