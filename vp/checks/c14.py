"""C14  Temperature values, units, limits and heater operation are consistent.

Exhaustive over raw words 0..65535 x {C,F} (read, and write-back through both paths), over a
0.01-degree decimal grid around the allowed range (one-step accuracy + monotonicity), and over
all flag/temperature-relation combinations on every cfg+log combination that has the heater
items.  Oracle: exact rational arithmetic (Fraction) and a written-down operation ladder.
"""
from fractions import Fraction

from hypothesis import strategies as st

from .. import packs
from ..runner import InvalidCase, Result

ID = "C14"
LEVEL = "exploration"
RULE = (
    "enumerated: (a) every raw word 0..65535 x unit {C,F} on one pair per platform: displayed value "
    "vs raw/18 resp. (raw+320)/10, write-back of the displayed value through the blocking and the "
    "awaitable path must emit the raw word exactly; (b) every decimal temperature on a 0.01 grid in "
    "[min-5,max+5] of each unit (float and string form): lands within one device step, ordering "
    "preserved; (c) every cfg+log combination with the heater items x unit x heating flag x cooling "
    "flag x current{<,=,>}real-target: unit symbol, limits, temperatures and current_operation vs the "
    "reference ladder; generated: Hypothesis temperatures/words/flags on random combinations and "
    "Temp items other than the set point. Non-trivial = raw word whose float quotient is inexact, a "
    "decimal that is not a device value, or a flag/relation combination; distinct by canonical case."
)
ASSUMPTIONS = [
    "a heating/cooling flag is 'set' when its stored field is non-zero (Bool bit = 1 / Enum label not empty)",
    "one device step = 1/18 degree C or 0.1 degree F",
]
BUDGET = {
    "quick": {"workers": 16, "examples": 3200},
    "thorough": {"workers": 16, "examples": 60000},
}
HEATER_ITEMS = ("TempUnits", "SetpointG", "DisplayedTempG", "RealSetPointG")
EPS = 1e-9


def coverage_extra(tier):
    return {"exhaustive": True,
            "exhaustive_of": "raw words 0..65535 x both units (read + write-back, both paths) per platform; "
                             "0.01-degree grid; flag x relation x unit on every heater-capable combination",
            "heater_combinations": len(_heater_combos()), "platforms_with_temp": len(_plat_pairs())}


_hc = None


def _heater_combos():
    global _hc
    if _hc is None:
        _hc = [c for c in packs.combos() if all(t in packs.pair(*c).items for t in HEATER_ITEMS)]
    return _hc


_pp = None


def _plat_pairs():
    global _pp
    if _pp is None:
        seen = {}
        for c in _heater_combos():
            seen[c[0]] = c  # last (newest) combination of each platform
        _pp = [seen[k] for k in sorted(seen)]
    return _pp


# ------------------------------------------------------------------ context: structure + heater

_cache = {}


class _Stub:
    unique_id = "SPA0"
    name = "Spa"


def _ctx(combo):
    from geckolib.driver import GeckoAsyncStructure
    from geckolib.automation.heater import GeckoWaterHeater

    c = _cache.get(combo)
    if c is None:
        if len(_cache) > 40:
            _cache.clear()
        em, aem = [], []

        async def aset(p, l, v):
            aem.append((p, l, v))

        s = GeckoAsyncStructure(lambda p, l, v: em.append((p, l, v)), aset)
        packs.build_real(s, *combo)

        class Spa:
            accessors = s.accessors
            struct = s

        stub = _Stub()
        stub._spa = Spa()
        heater = GeckoWaterHeater(stub)
        c = _cache[combo] = (s, packs.pair(*combo), heater, em, aem)
    return c


def _set(block, it, raw):
    pos, w, word = it.encode_raw(bytes(block), raw)
    return packs.apply_write(bytes(block), pos, w, word)


def _unit_raw(pair, unit):
    return pair.items["TempUnits"].labels.index(unit)


def _run(coro):
    try:
        coro.send(None)
    except StopIteration:
        return
    coro.close()
    raise AssertionError("awaitable path suspended")


# ------------------------------------------------------------------ (a) raw sweep


def _raw_slab(res, combo, unit, r0, r1, tag="SetpointG"):
    s, pair, heater, em, aem = _ctx(combo)
    it = pair.items[tag]
    acc = s.accessors[tag]
    base = _set(bytes(packs.BLOCK), pair.items["TempUnits"], _unit_raw(pair, unit))
    n = 0
    for raw in range(r0, r1):
        blk = _set(base, it, raw)
        s.set_status_block(blk)
        exact = packs.temp_value(raw, unit)
        v = acc.value
        n += 1
        if not isinstance(v, float) or abs(Fraction(v) - exact) > Fraction(1, 10**9):
            res.fail(f"C14|read|{unit}", f"{combo} {tag} raw {raw} unit {unit}: shown {v!r}, exact {float(exact)!r}")
            break
        # write the shown value back on top of a different word
        for path in ("sync", "async"):
            s.set_status_block(_set(base, it, (raw * 7 + 13) & 0xFFFF))
            em.clear()
            aem.clear()
            try:
                if path == "sync":
                    acc.value = v
                    out = list(em)
                else:
                    _run(acc.async_set_value(v))
                    out = list(aem)
            except Exception as exc:  # noqa
                res.fail(f"C14|write-raised|{unit}|{path}", f"{tag} <- {v!r}: {exc!r}")
                return n
            if out != [(it.pos, 2, raw)]:
                res.fail(f"C14|write-back|{unit}|{path}",
                         f"{combo} {tag}: writing the shown value {v!r} of raw {raw} ({unit}) emits {out}, expected [({it.pos}, 2, {raw})]")
                return n
    return n


# ------------------------------------------------------------------ (b) decimal grid


def _grid(unit):
    lo, hi = (15, 40) if unit == "C" else (59, 104)
    return (lo - 5) * 100, (hi + 5) * 100


def _decimal_slab(res, combo, unit, c0, c1, path, form):
    """c0..c1 are hundredths of a degree"""
    s, pair, heater, em, aem = _ctx(combo)
    it = pair.items["SetpointG"]
    base = _set(bytes(packs.BLOCK), pair.items["TempUnits"], _unit_raw(pair, unit))
    step = Fraction(1, 18) if unit == "C" else Fraction(1, 10)
    prev_raw = None
    prev_t = None
    n = 0
    for c in range(c0, c1):
        t = c / 100.0
        arg = (f"{c // 100}.{c % 100:02d}" if form == "str" else t)
        s.set_status_block(base)
        em.clear()
        aem.clear()
        try:
            if path == "sync":
                heater.set_target_temperature(arg)
                out = list(em)
            else:
                _run(heater.async_set_target_temperature(arg))
                out = list(aem)
        except Exception as exc:  # noqa
            res.fail(f"C14|decimal-raised|{unit}|{path}", f"set_target_temperature({arg!r}): {exc!r}")
            return n
        n += 1
        if len(out) != 1 or out[0][0] != it.pos or out[0][1] != 2 or not (0 <= out[0][2] <= 65535):
            res.fail(f"C14|decimal-emission|{unit}|{path}", f"set_target_temperature({arg!r}) emitted {out}")
            return n
        raw = out[0][2]
        landed = packs.temp_value(raw, unit)
        exact_t = Fraction(c, 100)
        if abs(landed - exact_t) >= step:
            res.fail(f"C14|decimal-step|{unit}|{path}",
                     f"{arg!r} {unit} stored as raw {raw} = {float(landed)!r}: more than one device step ({float(step):.4f}) away")
            return n
        # a value the device can represent must be stored exactly
        # (representable = exact_t is k*step for an integer k)
        k = exact_t / step
        if k.denominator == 1:
            want = int(k) if unit == "C" else int(k) - 320
            if unit == "F":
                want = int(exact_t * 10) - 320
            if raw != want:
                res.fail(f"C14|decimal-exact|{unit}|{path}", f"{arg!r} {unit} is a device value (raw {want}) but was stored as {raw}")
                return n
        if prev_raw is not None and raw < prev_raw:
            res.fail(f"C14|decimal-order|{unit}|{path}", f"{prev_t!r} -> raw {prev_raw} but {arg!r} -> raw {raw}: ordering not preserved")
            return n
        prev_raw, prev_t = raw, arg
    return n


# ------------------------------------------------------------------ (c) heater ladder


def _flag_on(it, block):
    return it.raw(block) != 0


def _ladder(heat_present, cool_present, heating, cooling, cur, real):
    if heat_present and cool_present:
        if heating:
            return "Heating"
        if cooling:
            return "Cooling"
        return "Idle"
    if heat_present and heating:
        return "Heating"
    if cool_present and cooling:
        return "Cooling"
    if cur < real:
        return "Heating"
    if cur > real:
        return "Cooling"
    return "Idle"


def _heater_case(res, combo, unit, hraw, craw, cur, real, setp, bg=0):
    s, pair, heater, em, aem = _ctx(combo)
    items = pair.items
    # the rest of the block: all zero, all ones, or pseudo-random - the neighbours of the flag / unit bit fields are not the
    # heater's business
    if bg == 0:
        blk = bytes(packs.BLOCK)
    elif bg == 1:
        blk = b"\xff" * packs.BLOCK
    else:
        import hashlib
        blk = b"".join(hashlib.blake2b(b"c14bg%d-%d" % (bg, i)).digest() for i in range(16))[:packs.BLOCK]
    blk = _set(blk, items["TempUnits"], _unit_raw(pair, unit))
    blk = _set(blk, items["DisplayedTempG"], cur)
    blk = _set(blk, items["RealSetPointG"], real)
    blk = _set(blk, items["SetpointG"], setp)
    hp, cp = "Heating" in items, "CoolingDown" in items
    if hp:
        blk = _set(blk, items["Heating"], hraw % items["Heating"].capacity)
    if cp:
        blk = _set(blk, items["CoolingDown"], craw % items["CoolingDown"].capacity)
    # later writes may share bytes with earlier ones: read everything back from the final block
    unit = pair.unit(blk)
    cur, real, setp = (items[t].raw(blk) for t in ("DisplayedTempG", "RealSetPointG", "SetpointG"))
    heating = hp and _flag_on(items["Heating"], blk)
    cooling = cp and _flag_on(items["CoolingDown"], blk)
    s.set_status_block(blk)
    sig = "C14|heater|{}"
    exp_sym, exp_min, exp_max = ("°C", 15, 40) if unit == "C" else ("°F", 59, 104)
    if heater.temperature_unit != exp_sym:
        res.fail(sig.format("unit-symbol"), f"{combo} unit item {unit}: symbol {heater.temperature_unit!r}")
    if (heater.min_temp, heater.max_temp) != (exp_min, exp_max):
        res.fail(sig.format("limits"), f"{combo} unit {unit}: limits {(heater.min_temp, heater.max_temp)}")
    for name, raw in (("current_temperature", cur), ("real_target_temperature", real), ("target_temperature", setp)):
        v = getattr(heater, name)
        if not isinstance(v, float) or abs(Fraction(v) - packs.temp_value(raw, unit)) > Fraction(1, 10**9):
            res.fail(sig.format(name), f"{combo} {name} raw {raw} unit {unit}: {v!r}")
    exp = _ladder(hp, cp, heating, cooling, cur, real)
    got = heater.current_operation
    if got != exp:
        res.fail(sig.format(f"operation|flags={'H' if hp else '-'}{'C' if cp else '-'}"),
                 f"{combo} unit={unit} heating={heating if hp else None} cooling={cooling if cp else None} "
                 f"current raw {cur} real-target raw {real} setpoint raw {setp}: reports {got!r}, expected {exp!r}")


# ------------------------------------------------------------------ enumeration

_SLAB = 2048
_DSLAB = 500


def _cases(tier):
    cases = []
    for combo in _plat_pairs():
        for unit in ("C", "F"):
            for r0 in range(0, 65536, _SLAB):
                cases.append({"k": "raw", "c": list(combo), "u": unit, "r0": r0, "r1": r0 + _SLAB})
    combo = _plat_pairs()[-1]
    alt = _plat_pairs()[0]
    for unit in ("C", "F"):
        lo, hi = _grid(unit)
        for c0 in range(lo, hi, _DSLAB):
            for path, form, cb in (("sync", "float", combo), ("async", "float", combo), ("async", "str", alt)):
                cases.append({"k": "dec", "c": list(cb), "u": unit, "c0": c0, "c1": min(hi, c0 + _DSLAB) + 1,
                              "path": path, "form": form})
    for combo in _heater_combos():
        cases.append({"k": "ladder", "c": list(combo)})
    return cases


_cc = {}


def enumerated(tier):
    if tier not in _cc:
        _cc[tier] = _cases(tier)
    cs = _cc[tier]
    return len(cs), lambda i: cs[i]


def strategy(tier):
    n = len(_heater_combos())
    word = st.one_of(st.integers(0, 65535), st.integers(0, 1300), st.sampled_from([0, 1, 359, 360, 720, 65535]))
    heat = st.builds(
        lambda ci, u, h, c, cur, d, sp, bg: {"k": "heater", "ci": ci, "u": u, "h": h, "cd": c, "cur": cur, "d": d, "sp": sp, "bg": bg},
        st.integers(0, n - 1), st.sampled_from(["C", "F"]), st.integers(0, 3), st.integers(0, 1), word,
        st.sampled_from([-300, -1, 0, 0, 1, 300]), word, st.integers(0, 40))
    other = st.builds(
        lambda ci, u, ti, raw: {"k": "rawgen", "ci": ci, "u": u, "ti": ti, "raw": raw},
        st.integers(0, n - 1), st.sampled_from(["C", "F"]), st.integers(0, 50), st.integers(0, 65535))
    dec = st.builds(
        lambda ci, u, a, b, path: {"k": "decgen", "ci": ci, "u": u, "a": a, "b": b, "path": path},
        st.integers(0, n - 1), st.sampled_from(["C", "F"]),
        st.integers(-2000, 12000), st.integers(-2000, 12000), st.sampled_from(["sync", "async"]))
    return st.one_of(heat, heat, other, dec)


def run_case(case) -> Result:
    res = Result()
    k = case.get("k")
    if k == "raw":
        n = _raw_slab(res, tuple(case["c"]), case["u"], case["r0"], case["r1"])
        res.nontrivial = True
        res.labels.append(("raw_words_checked", n))
        res.label("raw-slab")
    elif k == "dec":
        n = _decimal_slab(res, tuple(case["c"]), case["u"], case["c0"], case["c1"], case["path"], case["form"])
        res.nontrivial = True
        res.labels.append(("decimals_checked", n))
        res.label("decimal-slab")
    elif k == "ladder":
        combo = tuple(case["c"])
        n = 0
        for unit in ("C", "F"):
            for h in (0, 1, 2):
                for c in (0, 1):
                    for cur, real in ((600, 700), (700, 700), (700, 600), (0, 65535)):
                        for setp in (real, 650):
                            for bg in (0, 1, 2 + (n % 5)):
                                _heater_case(res, combo, unit, h, c, cur, real, setp, bg)
                            n += 1
        res.nontrivial = True
        res.labels.append(("ladder_points_checked", n))
        res.label("ladder-combo")
    elif k == "heater":
        hc = _heater_combos()
        combo = hc[case["ci"] % len(hc)]
        real = min(65535, max(0, case["cur"] + case["d"]))
        _heater_case(res, combo, case["u"], case["h"], case["cd"], case["cur"], real, case["sp"], int(case.get("bg", 0)))
        res.nontrivial = True
        res.label("gen-heater")
    elif k == "rawgen":
        hc = _heater_combos()
        combo = hc[case["ci"] % len(hc)]
        pair = packs.pair(*combo)
        temps = sorted(t for t, it in pair.items.items() if it.kind == "Temp")
        tag = temps[case["ti"] % len(temps)]
        if pair.items[tag].rw is None:
            # read only: value only
            s, _, _, _, _ = _ctx(combo)
            blk = _set(_set(bytes(packs.BLOCK), pair.items["TempUnits"], _unit_raw(pair, case["u"])), pair.items[tag], case["raw"])
            s.set_status_block(blk)
            v = s.accessors[tag].value
            if abs(Fraction(v) - packs.temp_value(case["raw"], case["u"])) > Fraction(1, 10**9):
                res.fail(f"C14|read|{case['u']}", f"{combo} {tag} raw {case['raw']}: {v!r}")
        else:
            _raw_slab(res, combo, case["u"], case["raw"], case["raw"] + 1, tag)
        res.nontrivial = (case["raw"] % 18 != 0) if case["u"] == "C" else True
        res.label("gen-raw")
    elif k == "decgen":
        hc = _heater_combos()
        combo = hc[case["ci"] % len(hc)]
        a, b = sorted((case["a"], case["b"]))
        # two single points: each within a step, and ordered
        r = Result()
        s, pair, heater, em, aem = _ctx(combo)
        it = pair.items["SetpointG"]
        base = _set(bytes(packs.BLOCK), pair.items["TempUnits"], _unit_raw(pair, case["u"]))
        raws = []
        for c in (a, b):
            if c < -320 * 10 and case["u"] == "F":
                raise InvalidCase(case)
            s.set_status_block(base)
            em.clear(); aem.clear()
            t = c / 100.0
            try:
                if case["path"] == "sync":
                    heater.set_target_temperature(t)
                    out = list(em)
                else:
                    _run(heater.async_set_target_temperature(t))
                    out = list(aem)
            except Exception as exc:  # noqa
                # temperatures that map outside the 16-bit word cannot be represented: must not emit garbage
                exact = Fraction(c, 100) * 18 if case["u"] == "C" else Fraction(c, 100) * 10 - 320
                if exact < 0 or exact > 65535:
                    raws.append(None)
                    continue
                res.fail(f"C14|decimal-raised|{case['u']}|{case['path']}", f"{t!r}: {exc!r}")
                return res
            if len(out) != 1:
                res.fail(f"C14|decimal-emission|{case['u']}|{case['path']}", f"{t!r}: {out}")
                return res
            raws.append(out[0][2])
            exact = Fraction(c, 100)
            if 0 <= out[0][2] <= 65535:
                step = Fraction(1, 18) if case["u"] == "C" else Fraction(1, 10)
                if abs(packs.temp_value(out[0][2], case["u"]) - exact) >= step:
                    res.fail(f"C14|decimal-step|{case['u']}|{case['path']}", f"{t!r} stored as raw {out[0][2]}")
        if None not in raws and raws[0] > raws[1]:
            res.fail(f"C14|decimal-order|{case['u']}|{case['path']}", f"{a/100!r}->{raws[0]} {b/100!r}->{raws[1]}")
        res.nontrivial = True
        res.label("gen-decimal")
    else:
        raise InvalidCase(case)
    return res
