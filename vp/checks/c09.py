"""C09  Self-healing: manager returns to CONNECTED once the spa is reachable again.

Full stack in the virtual world: real manager (spa address + identifier configured), real
locator, real connection, in-process simulator.  A generated script of network phases
(healthy / lossy / blackout / RF-error) and user actions (reset, set-spa-info) at generated
virtual times - including the middle of discovery and of the handshake - runs under a jitter
tape; afterwards the network is healthy and the bounded-time oracles apply.
"""
import asyncio

from hypothesis import strategies as st

from .. import manager, packs, vworld
from ..runner import HarnessError, InvalidCase, Result

ID = "C09"
LEVEL = "fault_enumeration"
J_MAX = 0.05
B_RECOVER = 600.0
B_DETECT = 300.0
RULE = (
    "generated scripts: 1..6 phases from {healthy, blackout, lossy(cyclic drop pattern), rferr} with durations "
    "0.1..400 virtual s, 0..3 user actions (reset / set-spa-info) at times biased into discovery (0..4.5 s) and "
    "the handshake (4..8 s) of the first and of later connection attempts, client-handler suspensions, jitter tape "
    "(J<=50 ms); the simulator block is silently changed during outages. Then the network is healthy. "
    "Non-trivial = a non-healthy phase or a user action overlapping discovery/handshake, or >=2 non-healthy phases; "
    "distinct by canonical case."
)
ASSUMPTIONS = [
    f"'bounded time' = {B_RECOVER:.0f} virtual s to CONNECTED after the network is healthy, {B_DETECT:.0f} virtual s to leave CONNECTED in a blackout (from the idle/active timing tables: ping frequency, not-responding timeout, retry x (timeout+pause), discovery timeout)",
    "liveness beyond the bound is not claimed; schedules = jitter-tape family",
]
BUDGET = {
    "quick": {"workers": 16, "examples": 480},
    "thorough": {"workers": 16, "examples": 16000},
}


def strategy(tier):
    dur = st.sampled_from([0.1, 0.7, 2.0, 4.2, 6.0, 11.0, 30.0, 70.0, 130.0, 250.0, 400.0])
    phase = st.one_of(
        st.tuples(st.just("healthy"), dur, st.just(None)),
        st.tuples(st.just("blackout"), dur, st.just(None)),
        st.tuples(st.just("rferr"), dur, st.just(None)),
        st.tuples(st.just("lossy"), dur, st.lists(st.integers(0, 1), min_size=2, max_size=7)),
    ).map(list)
    when = st.one_of(st.floats(0.0, 9.0), st.floats(0.0, 9.0), st.floats(9.0, 400.0)).map(lambda x: round(x, 2))
    action = st.tuples(when, st.sampled_from(["reset", "reset", "setinfo"])).map(list)
    jitter = st.one_of(st.just([]), st.lists(st.sampled_from([0.0, 0.0, 0.01, 0.03, 0.05]), min_size=1, max_size=7))
    return st.builds(
        lambda ph, ac, j, su, poke: {"phases": ph, "actions": sorted(ac), "jitter": j, "suspend": su, "poke": poke},
        st.lists(phase, min_size=1, max_size=6), st.lists(action, max_size=3), jitter,
        st.lists(st.sampled_from([0.0, 0.0, 0.0, 0.2, 1.0]), max_size=8), st.integers(0, 255))


def _facade_mirror_problems(man, sim):
    probs = []
    fac = man.facade
    spa = fac.spa
    blk = sim.structure.status_block
    if spa.struct.status_block != blk:
        bad = [i for i in range(1024) if spa.struct.status_block[i] != blk[i]][:6]
        probs.append(f"client block differs from the spa's at {bad}")
        return probs
    pair = packs.pair(spa.pack_class.name.lower(), spa.config_version, spa.log_version)
    unit = pair.unit(blk)
    wh = fac.water_heater
    for name, tag in (("current_temperature", "DisplayedTempG"), ("target_temperature", "SetpointG")):
        if tag in pair.items:
            exp = float(packs.temp_value(pair.items[tag].raw(blk), unit))
            if abs(getattr(wh, name) - exp) > 1e-9:
                probs.append(f"heater.{name}={getattr(wh, name)} but the spa block says {exp}")
    for p in fac.pumps:
        tag = p._state_sensor.accessor.tag
        if p.mode != pair.items[tag].decode(blk):
            probs.append(f"pump {p.key} mode {p.mode!r} vs spa {pair.items[tag].decode(blk)!r}")
    return probs


def run_case(case) -> Result:
    from geckolib import GeckoSpaState

    res = Result()
    jitter = [min(float(j), J_MAX) for j in case.get("jitter", [])]
    sc = manager.Scenario(jitter=jitter, suspend=case.get("suspend"))
    W, sim, peer = sc.W, sc.sim, sc.peer
    Man = manager.make_man_class()
    info = {"overlap": False}

    async def main(W):
        async with Man(W, spa_identifier=manager.SPA_ID_STR, spa_address=peer.addr[0], spa_name="Spa") as man:
            sc.man = man
            man.suspend = list(case.get("suspend", []))
            t0 = W.clock.t
            actions = [(float(t), a) for t, a in case.get("actions", [])]
            connected_since = None
            blackout_since = None

            async def tick():
                nonlocal connected_since, blackout_since
                sc.sample()
                now = W.clock.t
                while actions and actions[0][0] <= now - t0:
                    _, a = actions.pop(0)
                    if man.spa_state in (GeckoSpaState.LOCATING_SPAS, GeckoSpaState.CONNECTING, GeckoSpaState.LOCATED_SPAS):
                        info["overlap"] = True
                    if a == "reset":
                        await man.async_reset()
                    elif a == "setinfo":
                        await man.async_set_spa_info(peer.addr[0], manager.SPA_ID_STR, "Spa")
                    else:
                        raise InvalidCase(a)
                # blackout detection bound
                if W.blackout and man.spa_state == GeckoSpaState.CONNECTED:
                    if blackout_since is None:
                        blackout_since = now
                    elif now - blackout_since > B_DETECT:
                        res.fail("C09|blackout-not-reported", f"still CONNECTED {now - blackout_since:.0f} virtual s into a blackout")
                        blackout_since = now + 1e9
                else:
                    blackout_since = None

            for kind, dur, arg in case["phases"]:
                if kind not in ("healthy", "blackout", "rferr", "lossy"):
                    raise InvalidCase(kind)
                if kind != "healthy" and man.spa_state in (GeckoSpaState.LOCATING_SPAS, GeckoSpaState.CONNECTING, GeckoSpaState.LOCATED_SPAS, GeckoSpaState.IDLE):
                    info["overlap"] = True
                sc.apply("healthy")
                if kind != "healthy":
                    sc.apply(kind, True if arg is None else arg)
                    # the spa lives on while we cannot talk to it
                    b = bytearray(sim.structure.status_block)
                    b[300] = (b[300] + 1 + case.get("poke", 0)) & 0xFF
                    sim.structure.set_status_block(bytes(b))
                t_end = W.clock.t + float(dur)
                while W.clock.t < t_end:
                    await W.sleep(min(0.25, max(0.01, t_end - W.clock.t)))
                    await tick()
            sc.apply("healthy")
            t_h = W.clock.t
            # remaining user actions still happen (they are part of "any moment")
            ok_at = None
            while W.clock.t - t_h < B_RECOVER + (actions[-1][0] if actions else 0):
                await W.sleep(0.25)
                await tick()
                if not actions and man.spa_state == GeckoSpaState.CONNECTED and man.facade is not None:
                    ok_at = W.clock.t
                    break
            pump = sc.pump_task()
            pump_alive = pump is not None and not pump.done()
            if ok_at is None:
                why = ""
                if pump is not None and pump.done() and not pump.cancelled():
                    why = f" pump died: {pump.exception()!r}"
                spa_there = man._spa is not None
                res.fail(f"C09|not-recovered|{man.spa_state.name}|spa-{'present' if spa_there else 'absent'}|pump-{'alive' if pump_alive else 'dead'}",
                         f"network healthy for {W.clock.t - t_h:.0f} virtual s but state is {man.spa_state.name}, facade={man.facade is not None}, "
                         f"spa object {'present' if spa_there else 'absent'}.{why}")
            else:
                # the spa changed while we could not hear it: at the latest the next periodic
                # refresh (<= 120 s idle) repairs the client's copy; then the facade must mirror the spa
                probs = ["?"]
                t_m = W.clock.t
                while probs and W.clock.t - t_m < 300.0:
                    await W.sleep(5.0)
                    if man.spa_state != GeckoSpaState.CONNECTED or man.facade is None:
                        probs = [f"left CONNECTED again on a healthy network: {man.spa_state.name}"]
                        break
                    probs = _facade_mirror_problems(man, sim)
                for p in probs:
                    res.fail("C09|facade-does-not-mirror", p)
            if not all(alive for _, _, alive in sc.samples):
                t_dead = next(t for t, _, alive in sc.samples if not alive)
                exc = pump.exception() if pump is not None and pump.done() and not pump.cancelled() else None
                res.fail(f"C09|pump-died|{type(exc).__name__ if exc else 'cancelled'}",
                         f"sequence pump task ended at {t_dead - t0:.1f}s: {exc!r}")

    W.run(main)
    nonhealthy = sum(1 for k, _, _ in case["phases"] if k != "healthy")
    res.nontrivial = info["overlap"] or nonhealthy >= 2
    res.label(f"nonhealthy-{min(nonhealthy, 3)}")
    if info["overlap"]:
        res.label("overlaps-discovery-or-handshake")
    if case.get("actions"):
        res.label("user-actions")
    return res
