"""C09  Self-healing: manager returns to CONNECTED once the spa is reachable again.

Full stack in the virtual world: real manager (spa address + identifier configured), real
locator, real connection, in-process simulator.  A generated script of network phases
(healthy / lossy / blackout / RF-error) and user actions (reset, set-spa-info) at generated
virtual times - including the middle of discovery and of the handshake - runs under a jitter
tape; afterwards the network is healthy and the bounded-time oracles apply.
"""
import asyncio

from hypothesis import strategies as st

from .. import manager, packs, vworld
from ..runner import HarnessError, InvalidCase, Result

ID = "C09"
LEVEL = "fault_enumeration"
J_MAX = 0.05
B_RECOVER = 600.0
B_DETECT = 300.0
RULE = (
    "generated scripts: 1..6 phases from {healthy, blackout, blackout with OS send errors (ENETUNREACH reported through error_received), lossy(cyclic drop pattern), rferr} with durations "
    "0.1..400 virtual s, 0..3 user actions (reset / set-spa-info) at times biased into discovery (0..4.5 s) and "
    "the handshake (4..8 s) of the first and of later connection attempts, client-handler suspensions, jitter tape "
    "(J<=50 ms); the simulator block is silently changed during outages. Then the network is healthy. "
    "Non-trivial = a non-healthy phase or a user action overlapping discovery/handshake, or >=2 non-healthy phases; "
    "distinct by canonical case."
)
ASSUMPTIONS = [
    f"'bounded time' = {B_RECOVER:.0f} virtual s to CONNECTED after the network is healthy, {B_DETECT:.0f} virtual s to leave CONNECTED in a blackout (from the idle/active timing tables: ping frequency, not-responding timeout, retry x (timeout+pause), discovery timeout)",
    "liveness beyond the bound is not claimed; schedules = jitter-tape family",
]
BUDGET = {
    "quick": {"workers": 16, "examples": 480},
    "thorough": {"workers": 16, "examples": 16000},
}


def strategy(tier):
    dur = st.sampled_from([0.1, 0.7, 2.0, 4.2, 6.0, 11.0, 30.0, 70.0, 130.0, 250.0, 400.0])
    phase = st.one_of(
        st.tuples(st.just("healthy"), dur, st.just(None)),
        st.tuples(st.just("blackout"), dur, st.just(None)),
        st.tuples(st.just("rferr"), dur, st.just(None)),
        st.tuples(st.just("neterr"), dur, st.just(None)),
        st.tuples(st.just("lossy"), dur, st.lists(st.integers(0, 1), min_size=2, max_size=7)),
        st.tuples(st.just("noping"), dur, st.lists(st.integers(0, 1), min_size=2, max_size=7)),
        st.tuples(st.just("slowhs"), dur, st.integers(2, 9)),
        st.tuples(st.just("nostatu"), dur, st.just(None)),
    ).map(list)
    when = st.one_of(st.floats(0.0, 9.0), st.floats(0.0, 9.0), st.floats(9.0, 400.0)).map(lambda x: round(x, 2))
    action = st.tuples(when, st.sampled_from(["reset", "reset", "setinfo"])).map(list)
    jitter = st.one_of(st.just([]), st.lists(st.sampled_from([0.0, 0.0, 0.01, 0.03, 0.05]), min_size=1, max_size=7))
    smap = st.dictionaries(st.sampled_from(["CLIENT_FACADE_TEARDOWN", "RUNNING_SPA_DISCONNECTED", "RUNNING_PING_RECEIVED",
                                            "CONNECTION_STARTED", "LOCATING_FINISHED", "CLIENT_FACADE_IS_READY"]),
                           st.sampled_from([0.05, 0.3, 0.8]), max_size=2)
    return st.builds(
        lambda ph, ac, j, su, poke, sm: dict({"phases": ph, "actions": sorted(ac), "jitter": j, "suspend": su, "poke": poke, "suspend_map": sm},
                                             **({"mode": "active"} if poke % 4 == 3 else {})),
        st.lists(phase, min_size=1, max_size=6), st.lists(action, max_size=3), jitter,
        st.lists(st.sampled_from([0.0, 0.0, 0.0, 0.2, 1.0]), max_size=8), st.integers(0, 255), smap)


def enumerated(tier):
    """hand-shaped family next to the random scripts: the spa is found, then the handshake creeps along (only every (k+1)-th request
    of a step gets through, pings never do) so that it outlasts the not-responding timeout; once connected the spa disappears"""
    fam = []
    for k in (6, 7, 8, 9):
        for d1 in (260.0, 400.0):
            for mid in ((), (["healthy", 2.0, None],)):
                for mode in ("idle", "active"):
                    fam.append(dict({"phases": [["healthy", 0.45, None], ["slowhs", d1, k]] + [list(m) for m in mid] + [["blackout", 400.0, None]],
                                     "actions": [], "jitter": [], "suspend": [], "poke": k, "suspend_map": {}}, **({"mode": "active"} if mode == "active" else {})))
    # the handshake gets every answer but the status block
    for d1 in (70.0, 130.0):
        fam.append({"phases": [["healthy", 0.45, None], ["nostatu", d1, None]], "actions": [], "jitter": [], "suspend": [], "poke": 0, "suspend_map": {}})
    return len(fam), lambda i: fam[i]


def _facade_mirror_problems(man, sim):
    probs = []
    fac = man.facade
    spa = fac.spa
    blk = sim.structure.status_block
    if spa.struct.status_block != blk:
        bad = [i for i in range(1024) if spa.struct.status_block[i] != blk[i]][:6]
        probs.append(f"client block differs from the spa's at {bad}")
        return probs
    pair = packs.pair(spa.pack_class.name.lower(), spa.config_version, spa.log_version)
    unit = pair.unit(blk)
    wh = fac.water_heater
    for name, tag in (("current_temperature", "DisplayedTempG"), ("target_temperature", "SetpointG")):
        if tag in pair.items:
            exp = float(packs.temp_value(pair.items[tag].raw(blk), unit))
            if abs(getattr(wh, name) - exp) > 1e-9:
                probs.append(f"heater.{name}={getattr(wh, name)} but the spa block says {exp}")
    for p in fac.pumps:
        tag = p._state_sensor.accessor.tag
        if p.mode != pair.items[tag].decode(blk):
            probs.append(f"pump {p.key} mode {p.mode!r} vs spa {pair.items[tag].decode(blk)!r}")
    return probs


def run_case(case) -> Result:
    res = Result()
    rec = manager.run_scenario(case, recover_bound=B_RECOVER, mirror_wait=300.0, detect_bound=B_DETECT)
    rec["mirror_fn"] = _facade_mirror_problems
    sc = rec["sc"]
    sc.W.run(rec["main"])
    t0 = rec["t0"]
    if rec["detect_fail"] is not None:
        res.fail("C09|blackout-not-reported", f"still CONNECTED {rec['detect_fail']:.0f} virtual s into a blackout")
    # "spa not found" although the spa could be reached: the search repeats its hello every second or so, so a locate phase during
    # which the network was fault-free for 3 s at a stretch must have found the configured spa
    from geckolib import GeckoSpaEvent as E
    man = rec["man"]
    t_start = None
    for r in man.pre:
        if r["event"] == E.LOCATING_STARTED:
            t_start = r["t"]
        elif r["event"] == E.SPA_NOT_FOUND and t_start is not None:
            t_fin = r["t"]
            best = max((min(b, t_fin - 0.5) - max(a, t_start) for a, b in rec["clear"]), default=0.0)
            if best >= 3.0:
                res.fail("C09|not-found-although-reachable", f"SPA_NOT_FOUND after a search from {t_start - t0:.1f}s to {t_fin - t0:.1f}s during which the network was "
                         f"fault-free for {best:.1f}s at a stretch")
                break
    if rec["escapes"]:
        # the recorded dead end; the scenario went on after a user-style reset, everything else is judged as usual
        res.fail("C09|not-recovered|ERROR_SPA_NOT_FOUND|spa-absent|pump-alive",
                 f"the manager sat in ERROR_SPA_NOT_FOUND for 25 s on a fault-free network (at {[round(x) for x in rec['escapes']]} s) until the harness reset it")
    if rec["ok_at"] is None:
        why = f" pump died: {rec['pump_exc']!r}" if rec["pump_exc"] is not None else ""
        res.fail(f"C09|not-recovered|{rec['final_state'].name}|spa-{'present' if rec['final_spa'] else 'absent'}|pump-{'alive' if rec['pump_alive'] else 'dead'}",
                 f"network healthy for {rec['t_end'] - rec['t_h']:.0f} virtual s but state is {rec['final_state'].name}, "
                 f"facade={rec['final_facade']}, spa object {'present' if rec['final_spa'] else 'absent'}.{why}")
    else:
        for p in rec["mirror"] or []:
            res.fail("C09|facade-does-not-mirror", p)
    if not all(alive for _, _, alive in sc.samples):
        t_dead = next(t for t, _, alive in sc.samples if not alive)
        exc = rec["pump_exc"]
        res.fail(f"C09|pump-died|{type(exc).__name__ if exc else 'cancelled'}",
                 f"sequence pump task ended at {t_dead - t0:.1f}s: {exc!r}")
    nonhealthy = sum(1 for k, _, _ in case["phases"] if k != "healthy")
    res.nontrivial = rec["overlap"] or nonhealthy >= 2
    res.label(f"nonhealthy-{min(nonhealthy, 3)}")
    if rec["overlap"]:
        res.label("overlaps-discovery-or-handshake")
    if case.get("actions"):
        res.label("user-actions")
    return res
