"""C13  Facade commands emit exactly the intended device write and are idempotent.

The real async stack (GeckoAsyncSpa + GeckoAsyncFacade) is connected, on the virtual loop, to a
*model spa*: the in-process simulator loaded with a shipped snapshot (optionally re-wired so more
devices exist), extended by a small reference model that parses every SPACK / SETWC datagram
with an index-based reference parser, applies set-value writes and key presses to its block as
a spa does (key press = toggle of the device's user demand, state item mirrors the demand),
answers PACKS / WCSET / WCGET and echoes the changed bytes as a partial update.  A generated
history of facade commands runs against it; for every command the datagrams that reached the
model, the model's block and the client's read-back are judged.
"""
import asyncio

from hypothesis import strategies as st

from .. import clients, packs, refcodec as R, vworld
from ..runner import HarnessError, InvalidCase, Result, classify_exception

ID = "C13"
LEVEL = "exploration"
RULE = (
    "generated: shipped snapshot configuration x optional re-wiring of outputs (so blower / waterfall / more pumps exist) x "
    "history of 1..10 commands from {pump async_set_mode / set_mode (every mode label), blower / lights / eco async_turn_on/off "
    "and turn_on/off, heater async_set_target_temperature / set_target_temperature, async_set_temperature_unit, watercare "
    "async_set_mode (index or name)} with generated arguments, each optionally preceded by a spa-side state change (demand "
    "and state items re-written by the model and echoed) so commands meet every current state. Non-trivial = an on/off "
    "command issued when the device already is in that state, or a write into a bit field whose neighbours are non-zero; "
    "distinct by canonical case."
)
ASSUMPTIONS = [
    "spa model: a set-value write stores the big-endian value at the position; key press 6 / 16 toggles the blower / light user demand (OFF <-> first non-OFF label); a device's state item mirrors its demand (LO->LOW, HI->HIGH, equal labels otherwise); every change is echoed as STATP records of the containing words",
    "the model always answers, so no retransmission is ever needed: more than one command datagram per facade command is a violation",
    "read-back of a target temperature allows one device step (C14 decides exactness)",
]
BUDGET = {
    "quick": {"workers": 16, "examples": 3200},
    "thorough": {"workers": 16, "examples": 64000},
}

KEY_BLOWER, KEY_LIGHT = 6, 16
WIRE_LABELS = ["P1H", "P2H", "P3H", "BLO", "Waterfall", "LI", "P1L", "P2L", "NA"]

_SNAPS = None


def _snapshots():
    global _SNAPS
    if _SNAPS is None:
        out = []
        for p in packs.snapshot_files():
            for s in vworld.load_snapshot(p):
                if len(s.bytes) == 1024:
                    out.append(s)
        _SNAPS = out
    return _SNAPS


def strategy(tier):
    n = len(_snapshots())
    cmd = st.one_of(
        st.tuples(st.just("pump"), st.integers(0, 5), st.integers(0, 3), st.booleans()),
        st.tuples(st.just("pump"), st.integers(0, 5), st.integers(0, 3), st.booleans()),
        st.tuples(st.just("switch"), st.sampled_from(["blower", "light", "eco"]), st.booleans(), st.booleans()),
        st.tuples(st.just("switch"), st.sampled_from(["blower", "light", "eco"]), st.booleans(), st.booleans()),
        st.tuples(st.just("temp"), st.integers(-4, 60), st.integers(0, 9), st.booleans()),
        st.tuples(st.just("unit"), st.sampled_from(["C", "F", "°F", "°C", "f", "c"]), st.just(0), st.just(True)),
        st.tuples(st.just("wc"), st.integers(0, 4), st.booleans(), st.just(True)),
    ).map(list)
    poke = st.one_of(st.none(), st.tuples(st.sampled_from(["P1", "P2", "P3", "BL", "LI", "Waterfall", "eco"]), st.integers(0, 3)).map(list))
    step = st.tuples(poke, cmd).map(list)
    wire = st.one_of(st.just([]), st.lists(st.integers(0, len(WIRE_LABELS) - 1), min_size=1, max_size=8))
    return st.builds(lambda s, w, h: {"snapshot": s, "wire": w, "history": h},
                     st.integers(0, n - 1), wire, st.lists(step, min_size=1, max_size=10))


# ------------------------------------------------------------------ the model spa


class ModelSpa(vworld.SimPeer):
    def __init__(self, world, sim, pair, addr):
        super().__init__(world, sim, addr)
        self.pair = pair
        self.commands = []     # dicts of every SPACK / SETWC that arrived
        self.wc_mode = 1
        self.client = None
        self.client_id = None

    # -- block helpers
    @property
    def block(self):
        return self.sim.structure.status_block

    def _store(self, pos, data):
        b = self.block
        self.sim.structure.set_status_block(b[:pos] + data + b[pos + len(data):])

    def set_item(self, tag, raw):
        it = self.pair.items[tag]
        pos, w, word = it.encode_raw(self.block, raw)
        self._store(pos, int(word).to_bytes(w, "big"))
        return range(pos, pos + w)

    def mirror_state(self, device):
        """state item follows the user demand"""
        ud = next((u for u in self.pair.log_inst.user_demand_keys if u.upper() == ("Ud" + device).upper()), None)
        if ud is None or device not in self.pair.items or device == ud:
            return []
        dem = self.pair.items[ud].decode(self.block)
        st_it = self.pair.items[device]
        want = {"LO": "LOW", "HI": "HIGH"}.get(dem, dem)
        if st_it.labels and want in st_it.labels:
            return list(self.set_item(device, st_it.labels.index(want)))
        return []

    def toggle(self, device):
        ud = next((u for u in self.pair.log_inst.user_demand_keys if u.upper() == ("Ud" + device).upper()), None)
        if ud is None:
            return []
        it = self.pair.items[ud]
        cur = it.decode(self.block)
        off = it.labels.index("OFF") if "OFF" in it.labels else 0
        on = next(i for i, lab in enumerate(it.labels) if i != off and lab)
        touched = list(self.set_item(ud, on if cur == "OFF" else off))
        return touched + self.mirror_state(device)

    def echo(self, touched):
        words = sorted({min(p, 1022) for p in touched})
        if not words or self.client is None:
            return
        body = R.partial_update([(p, self.block[p:p + 2]) for p in words])
        self.world.deliver_from_spa(self, [(R.frame(self.sim.vp_identifier, self.client_id, body), self.client)])

    def poke(self, what, k):
        """spa-side state change (someone pressed a button on the tub)"""
        touched = []
        if what == "eco":
            if "EconActive" in self.pair.items:
                touched = list(self.set_item("EconActive", k % 2))
        else:
            ud = next((u for u in self.pair.log_inst.user_demand_keys if u.upper() == ("Ud" + what).upper()), None)
            if ud is not None and self.pair.items[ud].labels:
                labs = self.pair.items[ud].labels
                touched = list(self.set_item(ud, k % len(labs))) + self.mirror_state(what)
        self.echo(touched)

    # -- datagrams
    def receive(self, data, client_addr):
        parts = R.unframe(data)
        if parts is None:
            return super().receive(data, client_addr)
        src, dst, content = parts
        self.client, self.client_id = client_addr, src
        verb = content[:5]
        reply = lambda body: self.world.deliver_from_spa(self, [(R.frame(self.sim.vp_identifier, src, body), client_addr)])  # noqa: E731
        if verb == b"SPACK":
            self.received.append((self.world.clock.t, data, client_addr))
            cmd = {"t": self.world.clock.t, "verb": "SPACK", "raw": content, "seq": content[5], "pack_type": content[6],
                   "length": content[7], "command": content[8], "dst": dst, "src": src}
            touched = []
            if content[8] == 57 and content[7] == 2 and len(content) == 10:
                cmd.update(kind="key", key=content[9])
                if content[9] == KEY_BLOWER:
                    touched = self.toggle("BL")
                elif content[9] == KEY_LIGHT:
                    touched = self.toggle("LI")
            elif content[8] == 70 and len(content) == 8 + content[7] and content[7] in (6, 7):
                pos = int.from_bytes(content[11:13], "big")
                val = content[13:]
                cmd.update(kind="set", cfg=content[9], log=content[10], pos=pos, data=val)
                if pos + len(val) <= 1024:
                    self._store(pos, val)
                    touched = list(range(pos, pos + len(val)))
                    for dev in ("P1", "P2", "P3", "P4", "P5", "BL", "Waterfall"):
                        touched += self.mirror_state(dev)
            else:
                cmd.update(kind="malformed")
            self.commands.append(cmd)
            reply(R.pack_response())
            self.echo(touched)
            return
        if verb == b"SETWC":
            self.received.append((self.world.clock.t, data, client_addr))
            cmd = {"t": self.world.clock.t, "verb": "SETWC", "raw": content, "kind": "wc" if len(content) == 7 else "malformed",
                   "seq": content[5] if len(content) > 5 else None, "mode": content[6] if len(content) > 6 else None, "dst": dst, "src": src}
            self.commands.append(cmd)
            if cmd["kind"] == "wc":
                self.wc_mode = content[6]
            reply(R.watercare_set_response())
            return
        if verb == b"GETWC":
            self.received.append((self.world.clock.t, data, client_addr))
            reply(R.watercare_response(self.wc_mode))
            return
        return super().receive(data, client_addr)


def _rewire(sim, pair, wire):
    """write generated wirings into the output items of the model block before anything connects"""
    if not wire:
        return
    b = bytearray(sim.structure.status_block)
    outs = list(pair.cfg_inst.output_keys)
    j = 0
    for tag in outs:
        it = pair.items[tag]
        if not it.labels or j >= len(wire):
            continue
        lab = WIRE_LABELS[int(wire[j]) % len(WIRE_LABELS)]
        j += 1
        if lab in it.labels:
            pos, w, word = it.encode_raw(bytes(b), it.labels.index(lab))
            b[pos:pos + w] = int(word).to_bytes(w, "big")
    sim.structure.set_status_block(bytes(b))


# ------------------------------------------------------------------ the case


def run_case(case) -> Result:
    res = Result()
    snaps = _snapshots()
    try:
        snap = snaps[int(case["snapshot"]) % len(snaps)]
        history = list(case["history"])
    except (KeyError, TypeError, ValueError):
        raise InvalidCase(case)
    pair = packs.pair(snap.packtype.lower(), snap.config_version, snap.log_version)
    W = vworld.World()
    sim = vworld.make_simulator(snap)
    _rewire(sim, pair, case.get("wire", []))
    peer = ModelSpa(W, sim, pair, ("10.0.0.50", 10022))
    W.peers.append(peer)
    info = {"idem": False, "neighbour": False, "commands": 0, "skipped": 0}

    async def main(W):
        from geckolib import GeckoAsyncFacade

        spa, tm, ev = await clients.connect_async_spa(W, peer)
        try:
            clients.keep_ping_fresh(spa, W)
            fac = GeckoAsyncFacade(spa, tm)
            for t in list(tm._tasks):
                if t.get_name() == "FACADE:Facade update":
                    t.cancel()   # only the tested commands talk
            await W.sleep(0.3)
            pack_type = spa.pack_class.type
            wc_calls = []
            fac.water_care.watch(lambda *a: wc_calls.append(a))

            async def settle():
                for _ in range(200):
                    await W.sleep(0.25)
                    live = [t for t in tm._tasks if not t.done() and t.get_name().startswith(("SPA:Set value", "SPA:Button press"))]
                    if not live and W.in_flight == 0 and spa._protocol.queue.qsize() == 0:
                        return
                raise HarnessError("world did not settle after a command")

            for poke, cmd in history:
                clients.keep_ping_fresh(spa, W)
                if poke is not None:
                    peer.poke(str(poke[0]), int(poke[1]))
                    await settle()
                    clients.keep_ping_fresh(spa, W)
                if spa.struct.status_block != peer.block:
                    raise HarnessError("client block differs from the model before a command")
                kind = cmd[0]
                before = peer.block
                n0 = len(peer.commands)
                exp = None          # expected datagram description or "none"
                after_check = None  # callable run after the echo
                what = None
                try:
                    if kind == "pump":
                        pumps = fac.pumps
                        if not pumps:
                            info["skipped"] += 1
                            continue
                        p = pumps[int(cmd[1]) % len(pumps)]
                        modes = list(p.modes)
                        mode = modes[int(cmd[2]) % len(modes)]
                        ud = next(u for u in pair.log_inst.user_demand_keys if u.upper() == ("Ud" + p.key).upper())
                        it = pair.items[ud]
                        idx = it.labels.index(mode)
                        pos, w, word = it.encode_raw(before, idx)
                        exp = {"kind": "set", "pos": pos, "data": int(word).to_bytes(w, "big")}
                        cur_field = it.field(before)
                        if it.mask is not None and (cur_field & ~it.field_mask):
                            info["neighbour"] = True
                        what = f"{p.key}.{'async_set_mode' if cmd[3] else 'set_mode'}({mode!r})"
                        if cmd[3]:
                            await p.async_set_mode(mode)
                        else:
                            p.set_mode(mode)

                        def after_check(p=p, ud=ud, mode=mode):
                            if spa.accessors[ud].value != mode:
                                res.fail("C13|readback|pump-demand", f"{what}: client reads {ud}={spa.accessors[ud].value!r} after the echo")
                            want = {"LO": "LOW", "HI": "HIGH"}.get(mode, mode)
                            st_labels = pair.items[p.key].labels if p.key in pair.items else None
                            if st_labels and want in st_labels and p.mode != want:
                                res.fail("C13|readback|pump-mode", f"{what}: pump.mode reads {p.mode!r}, the spa's state item says {want!r}")
                    elif kind == "switch":
                        dev = {"blower": (fac.blowers[0] if fac.blowers else None), "light": (fac.lights[0] if fac.lights else None),
                               "eco": fac.eco_mode}[cmd[1]]
                        if dev is None:
                            info["skipped"] += 1
                            continue
                        on = bool(cmd[2])
                        was_on = bool(dev.is_on)
                        what = f"{dev.key}.{'async_' if cmd[3] else ''}turn_{'on' if on else 'off'}() while {'on' if was_on else 'off'}"
                        if was_on == on:
                            exp = "none"
                            info["idem"] = True
                        elif cmd[1] == "eco":
                            it = pair.items["EconActive"]
                            pos, w, word = it.encode_raw(before, 1 if on else 0)
                            exp = {"kind": "set", "pos": pos, "data": int(word).to_bytes(w, "big")}
                            if it.mask is not None and (it.field(before) & ~it.field_mask):
                                info["neighbour"] = True
                        else:
                            exp = {"kind": "key", "key": KEY_BLOWER if cmd[1] == "blower" else KEY_LIGHT}
                        fn = getattr(dev, ("async_" if cmd[3] else "") + ("turn_on" if on else "turn_off"))
                        if cmd[3]:
                            await fn()
                        else:
                            fn()

                        def after_check(dev=dev, on=on):
                            if bool(dev.is_on) != on:
                                res.fail(f"C13|readback|switch|{dev.key}", f"{what}: is_on reads {dev.is_on!r} after the echo")
                    elif kind == "temp":
                        wh = fac.water_heater
                        if "SetpointG" not in pair.items or "TempUnits" not in pair.items:
                            info["skipped"] += 1
                            continue
                        unit = pair.unit(before)
                        lo, hi = (15, 40) if unit == "C" else (59, 104)
                        t = lo + (int(cmd[1]) % (hi - lo + 5)) + int(cmd[2]) / 10.0
                        it = pair.items["SetpointG"]
                        exp = {"kind": "set", "pos": it.pos, "len": 2}
                        what = f"heater.{'async_' if cmd[3] else ''}set_target_temperature({t}) in {unit}"
                        if cmd[3]:
                            await wh.async_set_target_temperature(t)
                        else:
                            wh.set_target_temperature(t)

                        def after_check(wh=wh, t=t, unit=unit):
                            step = 1 / 18 if unit == "C" else 0.1
                            if abs(wh.target_temperature - t) > step + 1e-9:
                                res.fail("C13|readback|temperature", f"{what}: target_temperature reads {wh.target_temperature}")
                    elif kind == "unit":
                        wh = fac.water_heater
                        if "TempUnits" not in pair.items:
                            info["skipped"] += 1
                            continue
                        it = pair.items["TempUnits"]
                        want = "F" if cmd[1] in ("°F", "f", "F") else "C"
                        pos, w, word = it.encode_raw(before, it.labels.index(want))
                        exp = {"kind": "set", "pos": pos, "data": int(word).to_bytes(w, "big")}
                        what = f"heater.async_set_temperature_unit({cmd[1]!r})"
                        await wh.async_set_temperature_unit(cmd[1])

                        def after_check(wh=wh, want=want):
                            sym = "°C" if want == "C" else "°F"
                            if wh.temperature_unit != sym:
                                res.fail("C13|readback|unit", f"{what}: temperature_unit reads {wh.temperature_unit!r}")
                    elif kind == "wc":
                        wc = fac.water_care
                        mode = int(cmd[1]) % 5
                        arg = wc.modes[mode] if cmd[2] else mode
                        exp = {"kind": "wc", "mode": mode}
                        what = f"water_care.async_set_mode({arg!r})"
                        old = wc.mode
                        n_calls = len(wc_calls)
                        await wc.async_set_mode(arg)

                        def after_check(wc=wc, mode=mode, old=old, n_calls=n_calls):
                            if wc.mode != mode:
                                res.fail("C13|readback|watercare", f"{what}: mode reads {wc.mode!r}")
                            if peer.wc_mode != mode:
                                res.fail("C13|effect|watercare", f"{what}: the spa's watercare mode is {peer.wc_mode}")
                            if old != mode and len(wc_calls) != n_calls + 1:
                                res.fail("C13|notify|watercare", f"{what}: {len(wc_calls) - n_calls} observer notifications for a mode change {old}->{mode}")
                    else:
                        raise InvalidCase(cmd)
                except InvalidCase:
                    raise
                except Exception as exc:  # noqa
                    is_lib, site = classify_exception(exc)
                    if not is_lib:
                        raise
                    res.fail(f"C13|command-raises|{kind}|{site}", f"{what}: {type(exc).__name__}: {exc}")
                    continue
                info["commands"] += 1
                await settle()
                got = peer.commands[n0:]
                # ---- exactly the intended datagram(s)
                if exp == "none":
                    if got:
                        res.fail(f"C13|not-idempotent|{cmd[1]}", f"{what} sent {[g['raw'] for g in got]}")
                else:
                    if len(got) != 1:
                        res.fail(f"C13|command-count|{kind}|{len(got)}", f"{what} put {len(got)} command datagrams on the wire: {[g['raw'] for g in got]}")
                    for g in got[:1]:
                        if g["kind"] == "malformed":
                            res.fail(f"C13|malformed|{kind}", f"{what} sent a malformed command {g['raw']!r}")
                            continue
                        if g["dst"] != sim.vp_identifier or g["src"] != clients.CLIENT_ID:
                            res.fail("C13|addressing", f"{what}: command framed {g['src']!r} -> {g['dst']!r}")
                        if exp["kind"] == "wc":
                            if g["verb"] != "SETWC" or g.get("mode") != exp["mode"]:
                                res.fail("C13|watercare-command", f"{what} sent {g['raw']!r}")
                            elif not (1 <= g["seq"] <= 191):
                                res.fail("C13|sequence|SETWC", f"{what}: SETWC carries sequence {g['seq']}")
                            continue
                        if g["verb"] != "SPACK" or g["kind"] != exp["kind"]:
                            res.fail(f"C13|wrong-command|{kind}", f"{what} sent {g['raw']!r}, expected a {exp['kind']} command")
                            continue
                        if not (192 <= g["seq"] <= 255):
                            res.fail("C13|sequence|SPACK", f"{what}: SPACK carries sequence {g['seq']} (command range is 192..255)")
                        if g["pack_type"] != pack_type:
                            res.fail("C13|pack-type", f"{what}: SPACK carries pack type {g['pack_type']}, the connected pack is type {pack_type}")
                        if exp["kind"] == "key":
                            if g["key"] != exp["key"]:
                                res.fail("C13|keycode", f"{what}: key press {g['key']}, expected {exp['key']}")
                        else:
                            if (g["cfg"], g["log"]) != (snap.config_version, snap.log_version):
                                res.fail("C13|versions", f"{what}: set-value carries cfg/log {g['cfg']}/{g['log']}, connected {snap.config_version}/{snap.log_version}")
                            if g["pos"] != exp["pos"] or ("data" in exp and g["data"] != exp["data"]) or ("len" in exp and len(g["data"]) != exp["len"]):
                                res.fail(f"C13|write|{kind}", f"{what}: wrote {g['data'].hex()} at {g['pos']}, the reference encoder says "
                                         f"{exp.get('data', b'').hex() or '<2 bytes>'} at {exp['pos']} (field before: {before[exp['pos']:exp['pos'] + 2].hex()})")
                if spa.struct.status_block != peer.block:
                    bad = [i for i in range(1024) if spa.struct.status_block[i] != peer.block[i]][:5]
                    res.fail("C13|client-block-differs", f"after {what} and the echo the client block differs from the spa's at {bad}")
                elif after_check is not None:
                    after_check()
        finally:
            await spa.disconnect()
            await clients.shutdown(tm)

    W.run(main)
    res.nontrivial = bool(info["idem"] or info["neighbour"])
    res.label(f"commands-{min(info['commands'], 5)}")
    if info["idem"]:
        res.label("already-in-requested-state")
    if info["neighbour"]:
        res.label("bitfield-neighbours-set")
    if info["skipped"]:
        res.label("device-absent-skipped")
    return res
