"""C13  Facade commands emit exactly the intended device write and are idempotent.

The real async stack (GeckoAsyncSpa + GeckoAsyncFacade) is connected, on the virtual loop, to a
*model spa*: the in-process simulator loaded with a shipped snapshot (optionally re-wired so more
devices exist), extended by a small reference model that parses every SPACK / SETWC datagram
with an index-based reference parser, applies set-value writes and key presses to its block as
a spa does (key press = toggle of the device's user demand, state item mirrors the demand),
answers PACKS / WCSET / WCGET and echoes the changed bytes as a partial update.  A generated
history of facade commands runs against it; for every command the datagrams that reached the
model, the model's block and the client's read-back are judged.
"""
import asyncio

from hypothesis import strategies as st

from .. import clients, packs, refcodec as R, vworld
from ..runner import HarnessError, InvalidCase, Result, SetupFailed, classify_exception

ID = "C13"
LEVEL = "exploration"
RULE = (
    "generated: shipped snapshot configuration x optional re-wiring of outputs (so blower / waterfall / more pumps exist) x "
    "history of 1..10 commands from {pump async_set_mode / set_mode (every mode label), blower / lights / eco async_turn_on/off "
    "and turn_on/off, heater async_set_target_temperature / set_target_temperature, async_set_temperature_unit, watercare "
    "async_set_mode (index or name)} with generated arguments, each optionally preceded by a spa-side state change (demand "
    "and state items re-written by the model and echoed) so commands meet every current state; optionally a watercare command "
    "issued 0..250 ms into the facade's own periodic watercare poll. Non-trivial = an on/off "
    "command issued when the device already is in that state, or a write into a bit field whose neighbours are non-zero; "
    "distinct by canonical case."
)
ASSUMPTIONS = [
    "spa model: a set-value write stores the big-endian value at the position; key press 6 / 16 toggles the blower / light user demand (OFF <-> first non-OFF label); a device's state item mirrors its demand (LO->LOW, HI->HIGH, equal labels otherwise); every change is echoed as STATP records of the containing words",
    "the model always answers, so no retransmission is ever needed: more than one command datagram per facade command is a violation",
    "read-back of a target temperature allows one device step (C14 decides exactness)",
]
BUDGET = {
    "quick": {"workers": 16, "examples": 4800},
    "thorough": {"workers": 16, "examples": 64000},
}

KEY_BLOWER, KEY_LIGHT = 6, 16
WIRE_LABELS = ["P1H", "P2H", "P3H", "BLO", "Waterfall", "LI", "P1L", "P2L", "NA"]

_SNAPS = None


def _snapshots():
    global _SNAPS
    if _SNAPS is None:
        out = []
        for p in packs.snapshot_files():
            for s in vworld.load_snapshot(p):
                if len(s.bytes) == 1024:
                    out.append(s)
        _SNAPS = out
    return _SNAPS


def strategy(tier):
    n = len(_snapshots())
    cmd = st.one_of(
        st.tuples(st.just("pump"), st.integers(0, 5), st.integers(0, 3), st.booleans()),
        st.tuples(st.just("pump"), st.integers(0, 5), st.integers(0, 3), st.booleans()),
        st.tuples(st.just("switch"), st.sampled_from(["blower", "light", "eco"]), st.booleans(), st.booleans()),
        st.tuples(st.just("switch"), st.sampled_from(["blower", "light", "eco"]), st.booleans(), st.booleans()),
        st.tuples(st.just("temp"), st.integers(-4, 60), st.integers(0, 9), st.booleans()),
        st.tuples(st.just("unit"), st.sampled_from(["C", "F", "°F", "°C", "f", "c"]), st.just(0), st.just(True)),
        st.tuples(st.just("wc"), st.integers(0, 4), st.booleans(), st.just(True)),
    ).map(list)
    poke = st.one_of(st.none(), st.tuples(st.sampled_from(["P1", "P2", "P3", "BL", "LI", "Waterfall", "eco"]), st.integers(0, 3)).map(list))
    step = st.tuples(poke, cmd).map(list)
    wire = st.one_of(st.just([]), st.lists(st.integers(0, len(WIRE_LABELS) - 1), min_size=1, max_size=8))
    overlap = st.one_of(st.none(), st.none(), st.tuples(st.sampled_from([0, 10, 50, 100, 150, 250]), st.integers(0, 4)).map(list))
    pre = st.one_of(st.just(0), st.integers(0, 70), st.integers(54, 64))
    # a spa that takes its time to acknowledge (always inside the protocol timeout of 4 s), in the idle or the active timing table
    think = st.sampled_from([0, 0, 0, 0, 500, 1500, 3000])
    return st.builds(lambda s, w, h, k, ov, pr, th, act: dict({"snapshot": s, "wire": w, "history": h, "stack": k}, **({"wc_overlap": ov} if ov and k == "async" else {}),
                                                              **({"pre": pr} if pr else {}), **({"think_ms": th} if th and k == "async" else {}),
                                                              **({"active": True} if act and k == "async" else {})),
                     st.integers(0, n - 1), wire, st.lists(step, min_size=1, max_size=10), st.sampled_from(["async", "async", "blocking"]), overlap, pre,
                     think, st.booleans()).flatmap(lambda c_: st.sampled_from([False, False, False, True]).map(
                         lambda lv: dict(c_, live=True) if lv and c_["stack"] == "async" and "wc_overlap" not in c_ and not c_.get("think_ms") else c_)).flatmap(
                         lambda c_: st.one_of(st.none(), st.none(), st.tuples(st.integers(0, 9), st.integers(0, 3)).map(list)).map(
                             lambda tw: dict(c_, twin=tw) if tw and c_["stack"] == "async" else c_))


# ------------------------------------------------------------------ the model spa


class SpaModel:
    """the reference spa: block + command parser + reactions; transport-agnostic (returns the datagrams to send)"""

    def __init__(self, sim, pair):
        self.sim = sim
        self.pair = pair
        self.commands = []     # dicts of every SPACK / SETWC that arrived
        self.wc_mode = 1
        self.client = None
        self.client_id = None
        self.now = lambda: 0.0

    # -- block helpers
    @property
    def block(self):
        return self.sim.structure.status_block

    def _store(self, pos, data):
        b = self.block
        self.sim.structure.set_status_block(b[:pos] + data + b[pos + len(data):])

    def set_item(self, tag, raw):
        it = self.pair.items[tag]
        pos, w, word = it.encode_raw(self.block, raw)
        self._store(pos, int(word).to_bytes(w, "big"))
        return range(pos, pos + w)

    def _ud(self, device):
        return next((u for u in self.pair.log_inst.user_demand_keys if u.upper() == ("Ud" + device).upper()), None)

    def mirror_state(self, device):
        """state item follows the user demand"""
        ud = self._ud(device)
        if ud is None or device not in self.pair.items or device == ud:
            return []
        dem = self.pair.items[ud].decode(self.block)
        st_it = self.pair.items[device]
        want = {"LO": "LOW", "HI": "HIGH"}.get(dem, dem)
        if st_it.labels and want in st_it.labels:
            return list(self.set_item(device, st_it.labels.index(want)))
        return []

    def toggle(self, device):
        ud = self._ud(device)
        if ud is None:
            return []
        it = self.pair.items[ud]
        cur = it.decode(self.block)
        off = it.labels.index("OFF") if "OFF" in it.labels else 0
        on = next(i for i, lab in enumerate(it.labels) if i != off and lab)
        touched = list(self.set_item(ud, on if cur == "OFF" else off))
        return touched + self.mirror_state(device)

    def echo(self, touched):
        """the STATP datagram announcing the touched bytes (or nothing)"""
        words = sorted({min(p, 1022) for p in touched})
        if not words or self.client is None:
            return []
        body = R.partial_update([(p, self.block[p:p + 2]) for p in words])
        return [(R.frame(self.sim.vp_identifier, self.client_id, body), self.client)]

    def poke(self, what, k):
        """spa-side state change (someone pressed a button on the tub); returns the datagrams to push"""
        touched = []
        if what == "eco":
            if "EconActive" in self.pair.items:
                touched = list(self.set_item("EconActive", k % 2))
        else:
            ud = self._ud(what)
            if ud is not None and self.pair.items[ud].labels:
                labs = self.pair.items[ud].labels
                touched = list(self.set_item(ud, k % len(labs))) + self.mirror_state(what)
        return self.echo(touched)

    # -- datagrams: returns the list of (datagram, destination) replies, or None when the bundled simulator should answer
    def handle(self, data, client_addr):
        parts = R.unframe(data)
        if parts is None:
            return None
        src, dst, content = parts
        self.client, self.client_id = (client_addr[0], client_addr[1]), src
        verb = content[:5]
        framed = lambda body: (R.frame(self.sim.vp_identifier, src, body), self.client)  # noqa: E731
        if verb == b"SPACK":
            cmd = {"t": self.now(), "verb": "SPACK", "raw": content, "seq": content[5], "pack_type": content[6],
                   "length": content[7], "command": content[8], "dst": dst, "src": src}
            touched = []
            if content[8] == 57 and content[7] == 2 and len(content) == 10:
                cmd.update(kind="key", key=content[9])
                if content[9] == KEY_BLOWER:
                    touched = self.toggle("BL")
                elif content[9] == KEY_LIGHT:
                    touched = self.toggle("LI")
            elif content[8] == 70 and len(content) == 8 + content[7] and content[7] in (6, 7):
                pos = int.from_bytes(content[11:13], "big")
                val = content[13:]
                cmd.update(kind="set", cfg=content[9], log=content[10], pos=pos, data=val)
                if pos + len(val) <= 1024:
                    self._store(pos, val)
                    touched = list(range(pos, pos + len(val)))
                    for dev in ("P1", "P2", "P3", "P4", "P5", "BL", "Waterfall"):
                        touched += self.mirror_state(dev)
            else:
                cmd.update(kind="malformed")
            self.commands.append(cmd)
            return [framed(R.pack_response())] + self.echo(touched)
        if verb == b"SETWC":
            cmd = {"t": self.now(), "verb": "SETWC", "raw": content, "kind": "wc" if len(content) == 7 else "malformed",
                   "seq": content[5] if len(content) > 5 else None, "mode": content[6] if len(content) > 6 else None, "dst": dst, "src": src}
            self.commands.append(cmd)
            if cmd["kind"] == "wc":
                self.wc_mode = content[6]
            return [framed(R.watercare_set_response())]
        if verb == b"GETWC":
            return [framed(R.watercare_response(self.wc_mode))]
        return None


class ModelSpa(vworld.SimPeer):
    """E3 adapter: the model as a peer of the virtual network"""

    def __init__(self, world, sim, pair, addr):
        super().__init__(world, sim, addr)
        self.model = SpaModel(sim, pair)
        self.model.now = lambda: world.clock.t
        self.think = 0.0     # seconds between a command's arrival and the acknowledgement + echo

    commands = property(lambda self: self.model.commands)
    block = property(lambda self: self.model.block)
    wc_mode = property(lambda self: self.model.wc_mode)

    def poke(self, what, k):
        out = self.model.poke(what, k)
        if out:
            self.world.deliver_from_spa(self, out)

    def receive(self, data, client_addr):
        out = self.model.handle(data, client_addr)
        if out is None:
            return super().receive(data, client_addr)
        self.received.append((self.world.clock.t, data, client_addr))
        if self.think > 0:
            self.world.in_flight += 1

            def answer():
                self.world.in_flight -= 1
                self.world.deliver_from_spa(self, out)
            self.world.loop.call_later(self.think, answer)
        else:
            self.world.deliver_from_spa(self, out)


def _rewire(sim, pair, wire):
    """write generated wirings into the output items of the model block before anything connects"""
    if not wire:
        return
    b = bytearray(sim.structure.status_block)
    outs = list(pair.cfg_inst.output_keys)
    j = 0
    for tag in outs:
        it = pair.items[tag]
        if not it.labels or j >= len(wire):
            continue
        lab = WIRE_LABELS[int(wire[j]) % len(WIRE_LABELS)]
        j += 1
        if lab in it.labels:
            pos, w, word = it.encode_raw(bytes(b), it.labels.index(lab))
            b[pos:pos + w] = int(word).to_bytes(w, "big")
    sim.structure.set_status_block(bytes(b))


# ------------------------------------------------------------------ the case


def plan_command(res, info, fac, spa, pair, model, cmd, before, wc_calls):
    """what one facade command is expected to put on the wire and to read back afterwards.
    Returns None when the device does not exist in this configuration, else a dict with
    obj / method / args (the awaitable twin is 'async_' + method where it exists), what, exp, after."""
    kind = cmd[0]
    if kind == "pump":
        pumps = fac.pumps
        if not pumps:
            return None
        p = pumps[int(cmd[1]) % len(pumps)]
        modes = list(p.modes)
        mode = modes[int(cmd[2]) % len(modes)]
        ud = next(u for u in pair.log_inst.user_demand_keys if u.upper() == ("Ud" + p.key).upper())
        it = pair.items[ud]
        pos, w, word = it.encode_raw(before, it.labels.index(mode))
        if it.mask is not None and (it.field(before) & ~it.field_mask):
            info["neighbour"] = True
        what = f"{p.key}.set_mode({mode!r})"

        def after():
            if spa.accessors[ud].value != mode:
                res.fail("C13|readback|pump-demand", f"{what}: client reads {ud}={spa.accessors[ud].value!r} after the echo")
            want = {"LO": "LOW", "HI": "HIGH"}.get(mode, mode)
            st_labels = pair.items[p.key].labels if p.key in pair.items else None
            if st_labels and want in st_labels and p.mode != want:
                res.fail("C13|readback|pump-mode", f"{what}: pump.mode reads {p.mode!r}, the spa's state item says {want!r}")
        return {"obj": p, "method": "set_mode", "args": (mode,), "what": what, "kind": kind,
                "exp": {"kind": "set", "pos": pos, "data": int(word).to_bytes(w, "big")}, "after": after}
    if kind == "switch":
        dev = {"blower": (fac.blowers[0] if fac.blowers else None), "light": (fac.lights[0] if fac.lights else None),
               "eco": fac.eco_mode}[cmd[1]]
        if dev is None:
            return None
        on = bool(cmd[2])
        was_on = bool(dev.is_on)
        what = f"{dev.key}.turn_{'on' if on else 'off'}() while {'on' if was_on else 'off'}"
        if was_on == on:
            exp = "none"
            info["idem"] = True
        elif cmd[1] == "eco":
            it = pair.items["EconActive"]
            pos, w, word = it.encode_raw(before, 1 if on else 0)
            exp = {"kind": "set", "pos": pos, "data": int(word).to_bytes(w, "big")}
            if it.mask is not None and (it.field(before) & ~it.field_mask):
                info["neighbour"] = True
        else:
            exp = {"kind": "key", "key": KEY_BLOWER if cmd[1] == "blower" else KEY_LIGHT}

        def after():
            if bool(dev.is_on) != on:
                res.fail(f"C13|readback|switch|{dev.key}", f"{what}: is_on reads {dev.is_on!r} after the echo")
        return {"obj": dev, "method": "turn_on" if on else "turn_off", "args": (), "what": what, "kind": kind, "sub": cmd[1], "exp": exp, "after": after}
    if kind == "temp":
        wh = fac.water_heater
        if "SetpointG" not in pair.items or "TempUnits" not in pair.items:
            return None
        unit = pair.unit(before)
        lo, hi = (15, 40) if unit == "C" else (59, 104)
        t = lo + (int(cmd[1]) % (hi - lo + 5)) + int(cmd[2]) / 10.0
        what = f"heater.set_target_temperature({t}) in {unit}"
        # exact rational arithmetic on the tenths: a value the device can hold exactly (every 0.5 C, every 0.1 F) must be written
        # as exactly that word and read back exactly; anything else within one device step
        from fractions import Fraction
        tenths = Fraction(int(round(t * 10)), 10)
        word = tenths * 18 if unit == "C" else (tenths - 32) * 10
        exact = word.denominator == 1 and 0 <= word <= 0xFFFF

        def after():
            step = 1 / 18 if unit == "C" else 0.1
            if abs(wh.target_temperature - t) > (1e-9 if exact else step + 1e-9):
                res.fail(f"C13|readback|temperature{'|exact' if exact else ''}", f"{what}: target_temperature reads {wh.target_temperature}"
                         + (f" although the device holds {t} exactly (word {int(word)})" if exact else ""))
        exp = {"kind": "set", "pos": pair.items["SetpointG"].pos, "len": 2}
        if exact:
            exp["data"] = int(word).to_bytes(2, "big")
        return {"obj": wh, "method": "set_target_temperature", "args": (t,), "what": what, "kind": kind, "exp": exp, "after": after}
    if kind == "unit":
        wh = fac.water_heater
        if "TempUnits" not in pair.items:
            return None
        it = pair.items["TempUnits"]
        want = "F" if cmd[1] in ("°F", "f", "F") else "C"
        pos, w, word = it.encode_raw(before, it.labels.index(want))
        what = f"heater.set_temperature_unit({cmd[1]!r})"

        def after():
            sym = "°C" if want == "C" else "°F"
            if wh.temperature_unit != sym:
                res.fail("C13|readback|unit", f"{what}: temperature_unit reads {wh.temperature_unit!r}")
        return {"obj": wh, "method": "set_temperature_unit", "args": (cmd[1],), "what": what, "kind": kind,
                "exp": {"kind": "set", "pos": pos, "data": int(word).to_bytes(w, "big")}, "after": after}
    if kind == "wc":
        wc = fac.water_care
        mode = int(cmd[1]) % 5
        arg = wc.modes[mode] if cmd[2] else mode
        what = f"water_care.set_mode({arg!r})"
        old = wc.mode
        n_calls = len(wc_calls) if wc_calls is not None else 0

        def after():
            if wc.mode != mode:
                res.fail("C13|readback|watercare", f"{what}: mode reads {wc.mode!r}")
            if model.wc_mode != mode:
                res.fail("C13|effect|watercare", f"{what}: the spa's watercare mode is {model.wc_mode}")
            if wc_calls is not None and old != mode and len(wc_calls) != n_calls + 1:
                res.fail("C13|notify|watercare", f"{what}: {len(wc_calls) - n_calls} observer notifications for a mode change {old}->{mode}")
        return {"obj": wc, "method": "set_mode", "args": (arg,), "what": what, "kind": kind, "exp": {"kind": "wc", "mode": mode}, "after": after,
                "notify": True}
    raise InvalidCase(cmd)


def judge(res, plan, got, before, sim_id, client_id, pack_type, snap, stack):
    """the command datagrams that reached the model vs the plan"""
    what, exp, kind = plan["what"], plan["exp"], plan["kind"]
    if exp == "none":
        if got:
            res.fail(f"C13|not-idempotent|{plan.get('sub')}", f"[{stack}] {what} sent {[g['raw'] for g in got]}")
        return
    if len(got) != 1:
        res.fail(f"C13|command-count|{kind}|{len(got)}", f"[{stack}] {what} put {len(got)} command datagrams on the wire: {[g['raw'] for g in got]}")
    for g in got[:1]:
        if g["kind"] == "malformed":
            res.fail(f"C13|malformed|{kind}", f"[{stack}] {what} sent a malformed command {g['raw']!r}")
            continue
        if g["dst"] != sim_id or g["src"] != client_id:
            res.fail("C13|addressing", f"[{stack}] {what}: command framed {g['src']!r} -> {g['dst']!r}")
        if exp["kind"] == "wc":
            if g["verb"] != "SETWC" or g.get("mode") != exp["mode"]:
                res.fail("C13|watercare-command", f"[{stack}] {what} sent {g['raw']!r}")
            elif not (1 <= g["seq"] <= 191):
                res.fail("C13|sequence|SETWC", f"[{stack}] {what}: SETWC carries sequence {g['seq']}")
            continue
        if g["verb"] != "SPACK" or g["kind"] != exp["kind"]:
            res.fail(f"C13|wrong-command|{kind}", f"[{stack}] {what} sent {g['raw']!r}, expected a {exp['kind']} command")
            continue
        if not (192 <= g["seq"] <= 255):
            res.fail("C13|sequence|SPACK", f"[{stack}] {what}: SPACK carries sequence {g['seq']} (command range is 192..255)")
        if g["pack_type"] != pack_type:
            res.fail("C13|pack-type", f"[{stack}] {what}: SPACK carries pack type {g['pack_type']}, the connected pack is type {pack_type}")
        if exp["kind"] == "key":
            if g["key"] != exp["key"]:
                res.fail("C13|keycode", f"[{stack}] {what}: key press {g['key']}, expected {exp['key']}")
        else:
            if (g["cfg"], g["log"]) != (snap.config_version, snap.log_version):
                res.fail("C13|versions", f"[{stack}] {what}: set-value carries cfg/log {g['cfg']}/{g['log']}, connected {snap.config_version}/{snap.log_version}")
            if g["pos"] != exp["pos"] or ("data" in exp and g["data"] != exp["data"]) or ("len" in exp and len(g["data"]) != exp["len"]):
                res.fail(f"C13|write|{kind}", f"[{stack}] {what}: wrote {g['data'].hex()} at {g['pos']}, the reference encoder says "
                         f"{exp.get('data', b'').hex() or '<2 bytes>'} at {exp['pos']} (field before: {before[exp['pos']:exp['pos'] + 2].hex()})")


def _run_async(res, case, snap, pair, history, info):
    W = vworld.World()
    sim = vworld.make_simulator(snap)
    _rewire(sim, pair, case.get("wire", []))
    peer = ModelSpa(W, sim, pair, ("10.0.0.50", 10022))
    W.peers.append(peer)

    async def main(W):
        from geckolib import GeckoAsyncFacade

        live = bool(case.get("live"))
        spa, tm, ev = await clients.connect_async_spa(W, peer, keep_loops=live)
        try:
            clients.keep_ping_fresh(spa, W)
            fac = GeckoAsyncFacade(spa, tm)
            wc_calls = []
            fac.water_care.watch(lambda *a: wc_calls.append(a))
            ov = case.get("wc_overlap")
            if ov:
                # a watercare command issued while the facade's own periodic poll (GETWC, then REQRM) is in flight: the stale
                # answer of the poll must not win over the command
                await W.sleep(max(0, int(ov[0])) / 1000.0)
                mode = int(ov[1]) % 5
                n0 = len(peer.commands)
                await fac.water_care.async_set_mode(mode)
                for _ in range(40):
                    await W.sleep(0.25)
                    if W.in_flight == 0 and spa._protocol.queue.qsize() == 0 and not spa._protocol.Lock.locked():
                        break
                got = [g for g in peer.commands[n0:]]
                if [g.get("mode") for g in got if g["verb"] == "SETWC"] != [mode] or len(got) != 1:
                    res.fail("C13|command-count|wc-overlap", f"async water_care.set_mode({mode}) during the facade's poll sent {[g['raw'] for g in got]}")
                if fac.water_care.mode != mode or peer.wc_mode != mode:
                    res.fail("C13|readback|watercare-overlap", f"async water_care.set_mode({mode}) issued {ov[0]} ms into the facade's own watercare poll: the spa is in mode "
                             f"{peer.wc_mode}, the facade reads {fac.water_care.mode} (notifications {[(a[1], a[2]) for a in wc_calls]})")
                info["overlap"] = True
            for t in list(tm._tasks):
                if t.get_name() == "FACADE:Facade update" and not live:
                    t.cancel()   # from here on only the tested commands talk
            await W.sleep(0.3)
            for _ in range(int(case.get("pre", 0))):
                spa._protocol.get_and_increment_sequence_counter(True)   # a connection that has sent commands before (wrap at 255)
            pack_type = spa.pack_class.type
            if case.get("active"):
                from geckolib.config import set_config_mode
                set_config_mode(True)      # what the facade selects while a pump or blower runs
                await W.sleep(0.05)
            peer.think = min(int(case.get("think_ms", 0)), 3500) / 1000.0
            if peer.think or case.get("active"):
                info["slow_or_active"] = True

            async def settle():
                for _ in range(200):
                    await W.sleep(0.25)
                    busy_ = [t for t in tm._tasks if not t.done() and t.get_name().startswith(("SPA:Set value", "SPA:Button press"))]
                    if not busy_ and W.in_flight == 0 and spa._protocol.queue.qsize() == 0 and not (live and spa._protocol.Lock.locked()):
                        return
                raise SetupFailed("world did not settle after a command")

            for n_cmd, (poke, cmd) in enumerate(history):
                if live:
                    # the connection's own ping / refresh / facade-update loops run, nothing is helped along: the spa answers every
                    # ping, so every command - also the one right after the timing table changed - must still go out
                    await W.sleep([1.0, 3.0, 8.0][(n_cmd + len(history)) % 3])
                else:
                    clients.keep_ping_fresh(spa, W)
                if poke is not None:
                    peer.poke(str(poke[0]), int(poke[1]))
                    await settle()
                    if not live:
                        clients.keep_ping_fresh(spa, W)
                if spa.struct.status_block != peer.block:
                    raise SetupFailed("client block differs from the model before a command")
                before = peer.block
                n0 = len(peer.commands)
                plan = plan_command(res, info, fac, spa, pair, peer.model, cmd, before, wc_calls)
                if plan is None:
                    info["skipped"] += 1
                    continue
                use_async = bool(cmd[3]) or plan["kind"] in ("unit", "wc")   # the blocking unit/watercare twins need the blocking spa
                plan["what"] = ("async " if use_async else "") + plan["what"]
                try:
                    if use_async:
                        await getattr(plan["obj"], "async_" + plan["method"])(*plan["args"])
                    else:
                        getattr(plan["obj"], plan["method"])(*plan["args"])
                except Exception as exc:  # noqa
                    is_lib, site = classify_exception(exc)
                    if not is_lib:
                        raise
                    res.fail(f"C13|command-raises|{plan['kind']}|{site}", f"{plan['what']}: {type(exc).__name__}: {exc}")
                    continue
                info["commands"] += 1
                await settle()
                judge(res, plan, peer.commands[n0:], before, sim.vp_identifier, clients.CLIENT_ID, pack_type, snap, "async")
                if spa.struct.status_block != peer.block:
                    bad = [i for i in range(1024) if spa.struct.status_block[i] != peer.block[i]][:5]
                    res.fail("C13|client-block-differs", f"after {plan['what']} and the echo the client block differs from the spa's at {bad}")
                else:
                    plan["after"]()
            twin = case.get("twin")
            if twin and not res.violations and "SetpointG" in pair.items and "TempUnits" in pair.items:
                # two commands through the non-awaitable API, one right behind the other (the second is issued while the first still
                # waits for its acknowledgement): both must reach the spa, in order, and the second one's value must stand
                if not live:
                    clients.keep_ping_fresh(spa, W)
                wh = fac.water_heater
                unit = pair.unit(peer.block)
                base_t = (20 if unit == "C" else 70) + int(twin[0]) % 10
                t1, t2 = base_t + 0.5, base_t + 1.0 + (int(twin[1]) % 4) * 0.5
                n0 = len(peer.commands)
                wh.set_target_temperature(t1)
                wh.set_target_temperature(t2)
                await settle()
                got = [g for g in peer.commands[n0:] if g["verb"] == "SPACK"]
                pos_ = pair.items["SetpointG"].pos
                if len(got) != 2 or any(g.get("pos") != pos_ for g in got):
                    res.fail("C13|command-count|back-to-back", f"set_target_temperature({t1}) immediately followed by set_target_temperature({t2}) put "
                             f"{len(got)} set-value commands on the wire: {[g['raw'] for g in got]}")
                elif abs(wh.target_temperature - t2) > (1 / 18 if unit == "C" else 0.1) + 1e-9:
                    res.fail("C13|readback|back-to-back", f"after set_target_temperature({t1}); set_target_temperature({t2}) the facade reads {wh.target_temperature}")
                info["twin"] = True
        finally:
            await spa.disconnect()
            await clients.shutdown(tm)

    W.run(main)


def _run_sync(res, case, snap, pair, history, info):
    """the blocking stack: GeckoFacade on a GeckoSpa stepped on engine E4, same model spa"""
    from geckolib import GeckoFacade
    from .. import stepped

    sim = vworld.make_simulator(snap)
    _rewire(sim, pair, case.get("wire", []))
    model = SpaModel(sim, pair)
    eng = stepped.Engine()
    model.now = lambda: eng.vt.t
    fallback = stepped.sim_peer(sim)

    def peer(data, client_addr):
        out = model.handle(data, client_addr)
        if out is None:
            return fallback(data, client_addr)
        return out

    with eng.patched():
        spa = stepped.make_threaded_spa(eng, sim)
        eng.peer = peer
        fac = GeckoFacade(spa)
        spa.start_connect()
        if not stepped.run_until(eng, lambda: spa._is_connected and not eng.inbox and not spa._send_handlers, max_iterations=40000):
            raise SetupFailed("blocking handshake did not complete")
        if fac.water_heater is None:
            raise SetupFailed("blocking facade was not built on connect")
        pack_type = spa.new_pack_class.type
        for _ in range(int(case.get("pre", 0))):
            spa.get_and_increment_sequence_counter(True)

        def settle():
            from geckolib.driver import GeckoPackCommandProtocolHandler

            def quiet():
                if eng.inbox or spa._send_handlers:
                    return False
                return not any(isinstance(h, GeckoPackCommandProtocolHandler) for h in spa._receive_handlers)
            if not stepped.run_until(eng, quiet, max_iterations=4000):
                raise SetupFailed("engine did not settle after a command")
            stepped.run_until(eng, lambda: eng.iterations >= 6, max_iterations=6)   # let a trailing STATQ / echo pass

        for poke, cmd in history:
            if poke is not None:
                for dg, dest in model.poke(str(poke[0]), int(poke[1])):
                    eng.deliver(dg, stepped.SPA_ADDR)
                settle()
            if spa.struct.status_block != model.block:
                raise SetupFailed("blocking client block differs from the model before a command")
            before = model.block
            n0 = len(model.commands)
            plan = plan_command(res, info, fac, spa, pair, model, cmd, before, None)
            if plan is None:
                info["skipped"] += 1
                continue
            try:
                getattr(plan["obj"], plan["method"])(*plan["args"])
            except Exception as exc:  # noqa
                is_lib, site = classify_exception(exc)
                if not is_lib:
                    raise
                res.fail(f"C13|command-raises|{plan['kind']}|{site}", f"[blocking] {plan['what']}: {type(exc).__name__}: {exc}")
                continue
            info["commands"] += 1
            settle()
            judge(res, plan, model.commands[n0:], before, sim.vp_identifier, stepped.CLIENT_ID, pack_type, snap, "blocking")
            if spa.struct.status_block != model.block:
                bad = [i for i in range(1024) if spa.struct.status_block[i] != model.block[i]][:5]
                res.fail("C13|client-block-differs", f"[blocking] after {plan['what']} and the echo the client block differs from the spa's at {bad}")
            else:
                plan["after"]()


def run_case(case) -> Result:
    res = Result()
    snaps = _snapshots()
    try:
        snap = snaps[int(case["snapshot"]) % len(snaps)]
        history = list(case["history"])
    except (KeyError, TypeError, ValueError):
        raise InvalidCase(case)
    pair = packs.pair(snap.packtype.lower(), snap.config_version, snap.log_version)
    info = {"idem": False, "neighbour": False, "commands": 0, "skipped": 0}
    stack = case.get("stack", "async")
    if stack == "async":
        _run_async(res, case, snap, pair, history, info)
    elif stack == "blocking":
        _run_sync(res, case, snap, pair, history, info)
    else:
        raise InvalidCase(case)
    res.nontrivial = bool(info["idem"] or info["neighbour"])
    res.label(f"stack-{stack}", f"commands-{min(info['commands'], 5)}")
    if info["idem"]:
        res.label("already-in-requested-state")
    if info["neighbour"]:
        res.label("bitfield-neighbours-set")
    if info["skipped"]:
        res.label("device-absent-skipped")
    if info.get("overlap"):
        res.label("watercare-command-during-poll")
    if info.get("slow_or_active"):
        res.label("slow-acknowledgement-or-active-table")
    if case.get("live"):
        res.label("live-connection-loops-running")
    if info.get("twin"):
        res.label("two-commands-back-to-back")
    return res
