"""C08  Lifecycle follows the state table; facade-ready/teardown are well-bracketed.

Layer A: locate and connect are replaced (like the repository's own test does) by harness
coroutines with generated outcomes (found / none / raises; complete / retry exceeded / pack not
found / raises after step k), runtime events are injected through the callback the spa was
given from separate tasks while the client's handler suspends, user resets and set-spa-info
calls arrive at generated instants.  Layer B: the full stack of C09 (real locator, real
connection, fault phases, user actions).  Every `_handle_event` entry (with the state before)
and every delivery to the client is recorded and judged by a pinned lifecycle table and the
bracket monitors.
"""
import asyncio

from hypothesis import strategies as st

from .. import manager, packs, vworld
from ..runner import HarnessError, InvalidCase, Result

ID = "C08"
LEVEL = "exploration"
RULE = (
    "generated: (A) scripted-outcome histories: discover outcomes from {found, none, raise}, connect outcomes "
    "from {complete, retry-exceeded, no-pack, raise-at-step k}, 0..12 timed ops from {inject runtime event "
    "(ping received/missed/no-response, RF error, too many RF errors, retry exceeded, pack refreshed, water "
    "care error), reset, set-spa-info} issued from their own tasks, client-handler suspensions 0..1 s, the client's handler raising on a phase event; "
    "(B) full-stack fault/user-action scripts (as C09); enumerated (layer A): every (discover, connect) outcome pair x every op "
    "sequence up to depth 1 (quick) / 2 (thorough) over 18 timed ops. Non-trivial = history with an error event, a reset or "
    ">=2 connections; distinct by canonical case."
)
ASSUMPTIONS = [
    "runtime events are injected only under the preconditions of their real callers (spa object exists; pack refreshed only after the channel sensors exist; water-care error only with a facade)",
    "the table row of an event is checked when no other task entered the manager between the event's pre-processing and its delivery (otherwise only the invariants apply)",
]
BUDGET = {
    "quick": {"workers": 16, "examples": 1600},
    "thorough": {"workers": 16, "examples": 40000},
}

_TEXT = None


def _pinned_text():
    from geckolib import GeckoSpaState as S

    return {S.CONNECTED: "Connected", S.CONNECTING: "Connecting...", S.ERROR_RF_FAULT: "Lost contact with spa (RFERR)",
            S.ERROR_PING_MISSED: "Lost contact with in.touch2 module", S.ERROR_NEEDS_ATTENTION: "Needs attention, check logs",
            S.LOCATING_SPAS: "Searching for spas...", S.LOCATED_SPAS: "Choose spa",
            S.ERROR_SPA_NOT_FOUND: "Cannot find spa, check logs", S.IDLE: "GeckoSpaState.IDLE", S.SPA_READY: "GeckoSpaState.SPA_READY"}


def expected_after(event, before, facade_before):
    from geckolib import GeckoSpaEvent as E, GeckoSpaState as S

    if event == E.LOCATING_STARTED:
        return S.LOCATING_SPAS
    if event == E.LOCATING_FINISHED:
        return S.LOCATED_SPAS
    if event == E.SPA_NOT_FOUND:
        return S.ERROR_SPA_NOT_FOUND
    if event == E.CONNECTION_STARTED:
        return S.CONNECTING
    if event == E.CONNECTION_SPA_COMPLETE:
        return S.SPA_READY
    if event == E.CONNECTION_FINISHED:
        return S.CONNECTED if facade_before else before
    if event == E.RUNNING_PING_NO_RESPONSE:
        return S.ERROR_PING_MISSED if before == S.CONNECTED else before
    if event == E.ERROR_RF_ERROR:
        return S.ERROR_RF_FAULT if before == S.CONNECTED else before
    if event == E.RUNNING_SPA_DISCONNECTED:
        return S.IDLE if before == S.CONNECTED else before
    if event in (E.CONNECTION_PROTOCOL_RETRY_COUNT_EXCEEDED, E.ERROR_PROTOCOL_RETRY_COUNT_EXCEEDED, E.ERROR_TOO_MANY_RF_ERRORS):
        return S.ERROR_NEEDS_ATTENTION
    if event == E.RUNNING_PING_RECEIVED:
        return S.IDLE if before in (S.ERROR_PING_MISSED, S.ERROR_RF_FAULT, S.ERROR_NEEDS_ATTENTION) else before
    return before


def check_lifecycle(res, man, layer, final=True):
    """oracles over the recorded pre/delivery logs of one manager life"""
    from geckolib import GeckoSpaEvent as E, GeckoSpaState as S

    pre, dl = man.pre, man.delivered
    text = _pinned_text()
    # ---- table rows
    for r in pre:
        if r["delivered_state"] is None or r["event"] is None:
            continue
        lo, hi = r["ix"] + 1, r["delivered_at_ix"]
        # another task entered the manager (event or reset marker) before this event was delivered,
        # or a reset ran inside this task's own processing chain other than the table's reset arm
        interleaved = any(pre[j]["task"] != r["task"] for j in range(lo, hi))
        if interleaved:
            continue
        # a same-task child that itself changes the state (the reset inside PING_RECEIVED raises
        # RUNNING_SPA_DISCONNECTED) is part of this row's own processing
        exp = expected_after(r["event"], r["before"], r["facade_before"])
        if r["delivered_state"] != exp:
            res.fail(f"C08|table|{r['event'].name}|{r['before'].name}->{r['delivered_state'].name}",
                     f"[{layer}] {r['event'].name} in state {r['before'].name} (facade {'present' if r['facade_before'] else 'absent'}) "
                     f"left the manager in {r['delivered_state'].name}, lifecycle table says {exp.name}")
    # ---- per delivery invariants
    ready_open = 0      # READY announced and not yet torn down / re-announced
    teardowns_since_ready = 0
    seen_ready = False
    for d in dl:
        e, s = d["event"], d["state"]
        if s == S.CONNECTED and not (d["facade"] and d["spa_connected"]):
            res.fail("C08|connected-without-facade", f"[{layer}] {e.name} delivered in CONNECTED with facade={d['facade']} spa connected={d['spa_connected']}")
        if d["text"] is not None and d["text"] != text.get(s):
            res.fail(f"C08|sensor-text|{s.name}", f"[{layer}] status sensor shows {d['text']!r} in state {s.name}, pinned text is {text.get(s)!r}")
        if e == E.CLIENT_FACADE_IS_READY:
            if d.get("block_blank"):
                res.fail("C08|ready-without-status-block", f"[{layer}] facade-ready announced for a spa whose status block was never transferred (still all zero)")
            if s != S.CONNECTED or not d["facade"]:
                res.fail("C08|ready-outside-connected", f"[{layer}] facade-ready delivered in {s.name}, facade={d['facade']}")
            seen_ready = True
            teardowns_since_ready = 0
        if e == E.CLIENT_FACADE_TEARDOWN:
            teardowns_since_ready += 1
            if not seen_ready or teardowns_since_ready > 1:
                res.fail("C08|teardown-count", f"[{layer}] {teardowns_since_ready} facade-teardown announcements for one facade-ready")
            if not d["facade"]:
                res.fail(f"C08|teardown-without-facade|{s.name}", f"[{layer}] facade-teardown delivered in {s.name} while no facade exists")
    # ---- READY exactly when CONNECTED is entered
    for r in pre:
        if r["event"] is None:
            continue
        if r["event"] == E.CONNECTION_FINISHED and r["facade_before"] and r["before"] != S.CONNECTED:
            kids = [c for c in pre if c["parent"] == r["ix"]]
            if [c["event"] for c in kids].count(E.CLIENT_FACADE_IS_READY) != 1:
                res.fail("C08|ready-not-announced", f"[{layer}] CONNECTED entered but facade-ready announced {[c['event'].name for c in kids]}")
        if r["event"] == E.CLIENT_FACADE_IS_READY:
            par = pre[r["parent"]] if r["parent"] is not None else None
            if par is None or par["event"] != E.CONNECTION_FINISHED or r["before"] != S.CONNECTED:
                res.fail("C08|ready-spurious", f"[{layer}] facade-ready raised by {par['event'].name if par else None} in {r['before'].name}")
    # ---- brackets (on the order in which the manager processed the events; a delivery can be
    # overtaken when the client's handler for a nested event is suspended or cancelled)
    for start, fin in ((E.LOCATING_STARTED, E.LOCATING_FINISHED), (E.CONNECTION_STARTED, E.CONNECTION_FINISHED)):
        depth = 0
        for r in pre:
            if r["event"] == start:
                depth += 1
                if depth > 1:
                    res.fail(f"C08|bracket|{start.name}", f"[{layer}] {start.name} twice without {fin.name}")
                    depth = 1
            elif r["event"] == fin:
                depth -= 1
                if depth < 0:
                    res.fail(f"C08|bracket|{fin.name}", f"[{layer}] {fin.name} without {start.name}")
                    depth = 0
        if final and depth != 0:
            res.fail(f"C08|bracket-open|{start.name}", f"[{layer}] {start.name} never closed by {fin.name}")
    # ---- "spa not found" is the outcome of a locate phase that discovered nothing: it may not be announced (and the manager
    # parked in ERROR_SPA_NOT_FOUND) when the phase just closed did report the spa
    found = False
    for r in pre:
        if r["event"] == E.LOCATING_STARTED:
            found = False
        elif r["event"] == E.LOCATING_DISCOVERED_SPA:
            found = True
        elif r["event"] == E.SPA_NOT_FOUND and found:
            res.fail("C08|not-found-although-discovered", f"[{layer}] SPA_NOT_FOUND raised in state {r['before'].name} although the locate phase before it discovered the spa")
    # ---- resets
    for r in man.resets:
        if not r["completed"]:
            # a reset running inside one of the spa's own tasks (the ping loop's recovery reset) is legitimately cut short when
            # another reset, started meanwhile from a different task, cancels that task and finishes the job itself
            if any(o is not r and o["completed"] and o["task"] != r["task"] and o["t0"] <= r["t1"] <= o["t1"] + 0.1 for o in man.resets):
                continue
            res.fail("C08|reset-aborted", f"[{layer}] async_reset() called from {r['task']} did not complete: state={r['state'].name} "
                     f"facade={r['facade']} spa={r['spa']} descriptors={r['descriptors']}")
            continue
        if r["state"] != S.IDLE or r["facade"] or r["spa"] or r["descriptors"]:
            # a reset that was suspended in a client handler for >= one pump polling interval can be
            # overtaken by the sequence pump (known finding); an un-suspended reset must be exact
            mode = "suspended" if r["t1"] - r["t0"] >= 0.1 else "atomic"
            what = "+".join(n for n, bad in (("state", r["state"] != S.IDLE), ("facade", r["facade"]), ("spa", r["spa"]), ("descriptors", r["descriptors"])) if bad)
            res.fail(f"C08|reset-postcondition|{mode}|{what}", f"[{layer}] after async_reset(): state={r['state'].name} facade={r['facade']} spa={r['spa']} descriptors={r['descriptors']}")


# ------------------------------------------------------------------ layer A

DISCOVER = ["found", "found", "found", "none", "raise"]
CONNECT = ["complete", "complete", "complete", "retry", "nopack", "raise0", "raise2", "raise4"]
INJECT = ["ping", "ping", "missed", "noresp", "rferr", "toomany", "retry", "refreshed", "wcerr", "disconnected-noop"]


SUSPENDABLE = ["CLIENT_FACADE_TEARDOWN", "CLIENT_FACADE_IS_READY", "RUNNING_SPA_DISCONNECTED", "CONNECTION_STARTED",
               "CLIENT_HAS_RECONNECT_BUTTON", "LOCATING_FINISHED", "RUNNING_PING_RECEIVED", "CONNECTION_FINISHED",
               "ERROR_RF_ERROR", "RUNNING_PING_NO_RESPONSE"]


def suspend_maps():
    short = st.dictionaries(st.sampled_from(SUSPENDABLE), st.sampled_from([0.05, 0.3, 0.8]), max_size=3)
    # a client that is slow to take note of a discovered spa: longer than the discovery's initial wait / its whole window
    slow = st.sampled_from([5.0, 12.0]).map(lambda d: {"LOCATING_DISCOVERED_SPA": d})
    return st.one_of(short, short, short, st.builds(lambda a, b: dict(a, **b), short, slow))


def strategy(tier):
    burst = st.tuples(st.sampled_from([0.0, 0.2, 1.0]), st.just("burst"),
                      st.lists(st.sampled_from(["noresp", "rferr", "toomany", "retry", "ping", "reset"]), min_size=2, max_size=4)).map(list)
    op = st.one_of(
        burst,
        st.tuples(st.sampled_from([0.0, 0.05, 0.2, 0.5, 1.0, 3.0]), st.just("inject"), st.sampled_from(INJECT)),
        st.tuples(st.sampled_from([0.0, 0.05, 0.2, 0.5, 1.0, 3.0]), st.sampled_from(["reset", "setinfo"]), st.just("")),
    ).map(list)
    # the client's own handler failing while it is told about a phase event: the phase "raises" from the inside
    raise_map = st.one_of(st.just({}), st.just({}), st.dictionaries(
        st.sampled_from(["LOCATING_STARTED", "LOCATING_DISCOVERED_SPA", "CONNECTION_STARTED", "CLIENT_HAS_RECONNECT_BUTTON",
                         "CONNECTION_GOT_FIRMWARE_VERSION", "CONNECTION_GOT_CHANNEL", "CONNECTION_SPA_COMPLETE"]), st.integers(1, 2), min_size=1, max_size=2))
    a = st.builds(lambda d, c, ops, su, sm, rm: dict({"k": "A", "discover": d, "connect": c, "ops": ops, "suspend": su, "suspend_map": sm}, **({"raise_map": rm} if rm else {})),
                  st.lists(st.sampled_from(DISCOVER), min_size=1, max_size=6),
                  st.lists(st.sampled_from(CONNECT), min_size=1, max_size=5),
                  st.lists(op, max_size=12),
                  st.lists(st.sampled_from([0.0, 0.0, 0.0, 0.15, 0.4, 1.0]), max_size=10), suspend_maps(), raise_map)
    from . import c09
    # layer B only: the event loop may report the connection's socket as lost at some instant (a later reset must still be complete)
    lost = st.one_of(st.none(), st.none(), st.floats(6.0, 60.0).map(lambda x: round(x, 1)))
    b = st.builds(lambda c, sm, lo: dict(c, k="B", suspend_map=sm, actions=sorted(c["actions"] + ([[lo, "socklost"], [lo + 3.0, "reset"]] if lo else []))),
                  c09.strategy(tier), suspend_maps(), lost)
    return st.one_of(a, a, a, b)


ENUM_D = ["found", "none", "raise"]
ENUM_C = ["complete", "retry", "nopack", "raise0", "raise2", "raise4"]
ENUM_OPS = [[g, "inject", k] for g in (0.05, 1.0) for k in ("ping", "missed", "noresp", "rferr", "toomany", "retry", "refreshed")] \
    + [[g, w, ""] for g in (0.05, 1.0) for w in ("reset", "setinfo")]


def enumerated(tier):
    """layer A, systematically: every (discover outcome, connect outcome) x every op sequence up to depth 1 (quick) / 2
    (thorough) over the op alphabet (7 runtime events + reset + set-spa-info, each right away or after the connection
    settled), unsuspended client handler; the second connection attempt (after a reset) always completes"""
    depth = 2 if tier == "thorough" else 1
    seqs = [[]]
    frontier = [[]]
    for _ in range(depth):
        frontier = [sq + [op] for sq in frontier for op in ENUM_OPS]
        seqs += frontier
    combos = [(d, c) for d in ENUM_D for c in ENUM_C]
    n_main = len(combos) * len(seqs)
    # on top, in both tiers: every PAIR of timed ops after a successful connection, once with a prompt client handler and once
    # with a handler that suspends while it is told to tear the facade down (so the second event arrives from another task
    # in the middle of the first one's processing)
    pairs = [[a, b] for a in ENUM_OPS for b in ENUM_OPS]
    variants = [{}, {"CLIENT_FACADE_TEARDOWN": 0.3}]

    # and: one user reset / set-spa-info at every 50 ms instant of the first 1.5 s (two locate phases + the connection), while
    # the client's handler suspends 0.3 s on one chosen event - a crash-point sweep over the suspended windows
    sweep = [(ev, round(0.05 * k, 2), w) for ev in SUSPENDABLE for k in range(1, 31) for w in ("reset", "setinfo")]
    n_pairs = len(pairs) * len(variants)

    def fn(i):
        if i >= n_main + n_pairs:
            ev, t, w = sweep[i - n_main - n_pairs]
            return {"k": "A", "discover": ["found"] * 4, "connect": ["complete"] * 3, "ops": [[t, w, ""]], "suspend": [], "suspend_map": {ev: 0.3}}
        if i < n_main:
            d, c = combos[i % len(combos)]
            ops = seqs[i // len(combos)]
            return {"k": "A", "discover": [d, "found"], "connect": [c, "complete"], "ops": [list(o) for o in ops], "suspend": [], "suspend_map": {}}
        i -= n_main
        ops = pairs[i % len(pairs)]
        return {"k": "A", "discover": ["found", "found"], "connect": ["complete", "complete"], "ops": [list(o) for o in ops], "suspend": [],
                "suspend_map": dict(variants[i // len(pairs)])}

    return n_main + n_pairs + len(sweep), fn


def coverage_extra(tier):
    return {"layer_A_enumeration": "all (discover, connect) outcome pairs x all op sequences up to depth %d over %d timed ops; plus all %d ordered pairs of timed ops after a "
            "successful connection, with a prompt and with a suspending teardown handler; plus a user reset / set-spa-info at each 50 ms instant of the "
            "first 1.5 s x each of the 10 suspendable events suspended 0.3 s (600 cases)" % (2 if tier == "thorough" else 1, len(ENUM_OPS), len(ENUM_OPS) ** 2)}


_SNAP = None


def _run_A(res, case):
    from geckolib import GeckoAsyncLocator, GeckoAsyncSpa, GeckoAsyncSpaDescriptor, GeckoSpaEvent as E, GeckoSpaState as S

    global _SNAP
    if _SNAP is None:
        _SNAP = vworld.load_snapshot(vworld.default_snapshot_path())[0]
    snap = _SNAP
    plat, cv, lv = snap.packtype.lower(), snap.config_version, snap.log_version
    W = vworld.World()
    Man = manager.make_man_class()
    disc = list(case["discover"])
    conn = list(case["connect"])
    desc = GeckoAsyncSpaDescriptor(b"SPA01:02:03:04:05:06", "Spa", ("10.0.0.50", 10022))
    info = {"connections": 0, "errors": 0}

    async def fake_discover(self):
        out = disc.pop(0) if disc else "found"
        await asyncio.sleep(0.05)
        if out == "raise":
            raise RuntimeError("scripted discovery failure")
        self._spas = []
        if out == "found":
            self._spas.append(desc)
            await self._event_handler(E.LOCATING_DISCOVERED_SPA, spa_descriptor=desc)

    async def fake_connect(self):
        out = conn.pop(0) if conn else "complete"
        self._last_ping = None
        step = 0

        async def stage(ev, **kw):
            nonlocal step
            if out == f"raise{step}":
                raise RuntimeError(f"scripted connect failure at step {step}")
            step += 1
            await asyncio.sleep(0.05)
            await self._event_handler(ev, **kw)

        await stage(E.CONNECTION_GOT_FIRMWARE_VERSION)
        if out == "retry":
            await self._event_handler(E.CONNECTION_PROTOCOL_RETRY_COUNT_EXCEEDED)
            return
        await stage(E.CONNECTION_GOT_CHANNEL, channel=1, signal=2)
        await stage(E.CONNECTION_GOT_CONFIG_FILES)
        if out == "nopack":
            await self._event_handler(E.CONNECTION_CANNOT_FIND_SPA_PACK, pack_module_name="x")
            return
        await stage(E.CONNECTION_INITIAL_DATA_BLOCK_REQUEST)
        await stage(E.CONNECTION_GOT_CONFIG_FILES)  # step 4: last place a scripted raise can land
        self.struct.set_status_block(snap.bytes)
        pack, cfg, log = packs.build_real(self.struct, plat, cv, lv)
        self.pack_class, self.config_class, self.log_class = pack, cfg, log
        self.pack_type, self.config_version, self.log_version = pack.type, cv, lv
        self._is_connected = True
        info["connections"] += 1
        await self._event_handler(E.CONNECTION_SPA_COMPLETE)

    saved = (GeckoAsyncLocator.discover, GeckoAsyncSpa._connect)
    GeckoAsyncLocator.discover = fake_discover
    GeckoAsyncSpa._connect = fake_connect

    async def main(W):
        async with Man(W, spa_identifier=manager.SPA_ID_STR, spa_name="Spa") as man:
            man.suspend = list(case.get("suspend", []))
            man.suspend_map = dict(case.get("suspend_map", {}))
            man.raise_map = dict(case.get("raise_map", {}))
            tasks = []

            async def inject(kind):
                spa = man._spa
                if spa is None:
                    return
                cb = spa._event_handler
                if kind == "ping":
                    await cb(E.RUNNING_PING_RECEIVED)
                elif kind == "missed":
                    await cb(E.RUNNING_PING_MISSED)
                elif kind == "noresp":
                    info["errors"] += 1
                    await cb(E.RUNNING_PING_NO_RESPONSE)
                elif kind == "rferr":
                    info["errors"] += 1
                    await cb(E.ERROR_RF_ERROR)
                elif kind == "toomany":
                    info["errors"] += 1
                    await cb(E.ERROR_TOO_MANY_RF_ERRORS)
                elif kind == "retry":
                    info["errors"] += 1
                    await cb(E.ERROR_PROTOCOL_RETRY_COUNT_EXCEEDED)
                elif kind == "refreshed":
                    if spa.is_connected and man._radio_sensor is not None:
                        await cb(E.RUNNING_SPA_PACK_REFRESHED)
                elif kind == "wcerr":
                    pass  # needs a live watercare request path: covered by layer B / C07
                elif kind == "disconnected-noop":
                    pass
                else:
                    raise InvalidCase(kind)

            for gap, what, arg in case["ops"]:
                await W.sleep(float(gap))
                if what == "inject":
                    tasks.append(asyncio.ensure_future(inject(arg)))
                elif what == "burst":
                    # several tasks raise events in the same instant (ping loop, RF-error consumer, user)
                    for kind in arg:
                        if kind == "reset":
                            tasks.append(asyncio.ensure_future(man.async_reset()))
                        else:
                            tasks.append(asyncio.ensure_future(inject(kind)))
                    info["errors"] += 1
                elif what == "reset":
                    info["errors"] += 1
                    tasks.append(asyncio.ensure_future(man.async_reset()))
                elif what == "setinfo":
                    info["errors"] += 1
                    tasks.append(asyncio.ensure_future(man.async_set_spa_info(None, manager.SPA_ID_STR, "Spa")))
                else:
                    raise InvalidCase(what)
            await W.sleep(6.0 + 3 * max(list(man.suspend_map.values()) + [0.0]))
            for t in tasks:
                if not t.done():
                    t.cancel()
            rs = await asyncio.gather(*tasks, return_exceptions=True)
            for r in rs:
                if isinstance(r, Exception) and not isinstance(r, asyncio.CancelledError):
                    raise r
            pump = [t for t in man._tasks if t.get_name() == "SPAMAN:Sequence Pump"]
            if pump and pump[0].done() and not pump[0].cancelled() and pump[0].exception() is not None:
                res.fail(f"C08|pump-died|{type(pump[0].exception()).__name__}", f"[A] sequence pump ended: {pump[0].exception()!r}")
            # no phase may be left open while the manager is settled
            settled = man.spa_state not in (S.LOCATING_SPAS, S.CONNECTING)
            check_lifecycle(res, man, "A", final=settled)
            # abstract states visited (state, facade?, spa?, descriptors?): the histogram shows how far the reachable set is covered
            info["abstract"] = {f"{d['state'].name}/{'F' if d['facade'] else '-'}{'S' if d['spa'] else '-'}{'D' if d['descriptors'] else '-'}" for d in man.delivered}

    try:
        W.run(main)
    finally:
        GeckoAsyncLocator.discover, GeckoAsyncSpa._connect = saved
    res.nontrivial = info["errors"] > 0 or info["connections"] >= 2
    res.label("layer-A", f"connections-{min(info['connections'], 3)}")
    for a in sorted(info.get("abstract", ())):
        res.label("abs:" + a)


def _run_B(res, case):
    rec = manager.run_scenario(case, recover_bound=60.0)
    rec["sc"].W.run(rec["main"])
    man = rec["man"]
    check_lifecycle(res, man, "B", final=False)
    from geckolib import GeckoSpaEvent as E
    errors = sum(1 for d in man.delivered if d["event"] in (E.RUNNING_PING_NO_RESPONSE, E.ERROR_RF_ERROR, E.ERROR_PROTOCOL_RETRY_COUNT_EXCEEDED,
                                                           E.CONNECTION_PROTOCOL_RETRY_COUNT_EXCEEDED, E.SPA_NOT_FOUND))
    readies = sum(1 for d in man.delivered if d["event"] == E.CLIENT_FACADE_IS_READY)
    res.nontrivial = errors > 0 or bool(man.resets) or readies >= 2
    res.label("layer-B", f"readies-{min(readies, 3)}")


def _check_vocabulary(res):
    """the lifecycle table has one row per event and one column per state: no two names may denote the same member"""
    from geckolib import GeckoSpaEvent as E, GeckoSpaState as S
    for enum in (E, S):
        for name, member in enum.__members__.items():
            if member.name != name:
                res.fail(f"C08|table|alias|{name}", f"{enum.__name__}.{name} is the same member as {enum.__name__}.{member.name} (value {member.value!r}): "
                         f"the manager cannot tell the two apart")


def run_case(case) -> Result:
    res = Result()
    _check_vocabulary(res)
    if case.get("k") == "A":
        _run_A(res, case)
    elif case.get("k") == "B":
        _run_B(res, case)
    else:
        raise InvalidCase(case)
    return res
