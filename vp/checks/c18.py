"""C18  Pack tables are well-formed, consistent, and published layouts never change.

Complete enumeration (no sampling): every item of every table module, every table module,
every platform x cfg x log combination.  Oracles: (1) well-formedness predicates evaluated on
the *recorded constructor arguments* of the generated tables (vp/packs.py, independent of
accessor.py); (2) a layout manifest pinned at the audited commit, compared attribute by
attribute with what the real accessor objects expose today.
"""
import gzip
import json
import os
import sys

from ..runner import InvalidCase, Result, VERIF
from .. import packs

ID = "C18"
LEVEL = "exploration"
PIN = os.path.join(VERIF, "pins", "layout-236b7b1.json.gz")
RULE = (
    "complete enumeration: one case per (table module, item) [well-formedness + pinned layout], "
    "one per table module [advertised keys, version/file name, platform module, begin/end, pin of "
    "table attributes], one per platform x cfg x log combination [FILES naming round trip], and connections of the real async and "
    "blocking client to a simulated spa for triples that name every shipped cfg and log module once [the clients' own module lookup]. "
    "Every case is non-trivial (a real shipped item/table/combination); distinct by (module, tag)."
)
ASSUMPTIONS = [
    "'never change' is relative to the layout pinned at commit 236b7b1 (pins/layout-236b7b1.json.gz)",
    "bit-field capacity follows the SpaPackStruct MaxItems convention (>8:4 bits, >4:3, >2:2, else 1)",
]
BUDGET = {"quick": {"workers": 16, "examples": 0}, "thorough": {"workers": 16, "examples": 0}}


def coverage_extra(tier):
    return {"exhaustive": True, "exhaustive_of": "all shipped table modules, items and combinations",
            "modules": len(_index()["modules"]), "items": len(_index()["items"]),
            "combinations": len(_index()["combos"]), "pinned_modules": len(_pin())}


# ------------------------------------------------------------------ real-side attribute extraction


def real_layout(name):
    """public attributes of the real table object and its accessor objects"""
    from geckolib.driver import GeckoStructure

    kind, plat, ver = packs.classify(name)
    mod = packs.real_module(name)
    s = GeckoStructure(None)
    if kind == "pack":
        p = mod.GeckoPack(s)
        return {"kind": kind, "table": {"name": p.name, "type": p.type, "revision": p.revision}, "items": {}}
    inst = (mod.GeckoConfigStruct if kind == "cfg" else mod.GeckoLogStruct)(s)
    table = {"version": inst.version}
    if kind == "cfg":
        table["output_keys"] = list(inst.output_keys)
    else:
        table.update(begin=inst.begin, end=inst.end, all_device_keys=list(inst.all_device_keys),
                     user_demand_keys=list(inst.user_demand_keys), error_keys=list(inst.error_keys))
    items = {}
    for key, a in inst.accessors.items():
        items[key] = {
            "cls": type(a).__name__, "tag": a.tag, "pos": a.pos, "type": a.type,
            "length": a.length, "bitpos": a.bitpos,
            "bitmask": getattr(a, "bitmask", None) if a.bitpos is not None else None,
            "items": list(a.items) if a.items is not None else None,
            "maxitems": a.maxitems, "rw": a.read_write,
        }
    return {"kind": kind, "table": table, "items": items}


def make_pin(path=PIN):
    doc = {n: real_layout(n) for n in packs.module_names()}
    os.makedirs(os.path.dirname(path), exist_ok=True)
    with gzip.GzipFile(path, "w", mtime=0) as f:
        f.write(json.dumps(doc, sort_keys=True, separators=(",", ":")).encode())
    return doc


_pin_cache = None


def _pin():
    global _pin_cache
    if _pin_cache is None:
        with gzip.open(PIN) as f:
            _pin_cache = json.loads(f.read().decode())
    return _pin_cache


_real_cache = {}


def _real(name):
    if name not in _real_cache:
        try:
            _real_cache[name] = real_layout(name)
        except Exception as exc:  # noqa   a table that cannot be loaded is reported per case
            _real_cache[name] = exc
    return _real_cache[name]


# ------------------------------------------------------------------ case index

_idx = None


def _index():
    """cases are indexed over the union of shipped and pinned modules/items so that a removed
    module or item is still visited"""
    global _idx
    if _idx is None:
        pin = _pin()
        shipped = packs.module_names()
        modules = sorted(set(shipped) | set(pin))
        items = []
        for m in modules:
            tags = set(pin.get(m, {}).get("items", {}))
            if m in shipped and packs.classify(m)[0] != "pack":
                try:
                    tags |= set(packs.ref_module(m)[1])
                except Exception:  # noqa  reported by the module-level case
                    pass
            items.extend((m, t) for t in sorted(tags))
        _idx = {"modules": modules, "items": items, "combos": packs.combos(), "shipped": set(shipped)}
    return _idx


def enumerated(tier):
    ix = _index()
    n_items, n_mod, n_combo = len(ix["items"]), len(ix["modules"]), len(ix["combos"])

    lookups = _lookup_cases()

    def fn(i):
        if i < n_items:
            m, t = ix["items"][i]
            return {"k": "item", "m": m, "tag": t}
        i -= n_items
        if i < n_mod:
            return {"k": "module", "m": ix["modules"][i]}
        i -= n_mod
        if i < n_combo:
            return {"k": "combo", "c": list(ix["combos"][i])}
        i -= n_combo
        return dict(lookups[i], k="lookup")

    return n_items + n_mod + n_combo + len(lookups), fn


_LOOKUPS = None


def _lookup_cases():
    """(platform, cfg, log) triples that together name every shipped cfg and every shipped log module once, for both clients"""
    global _LOOKUPS
    if _LOOKUPS is None:
        out = []
        for plat, v in sorted(packs.platforms().items()):
            n = max(len(v["cfg"]), len(v["log"]))
            for i in range(n):
                cv, lv = v["cfg"][i % len(v["cfg"])], v["log"][i % len(v["log"])]
                for client in ("async", "blocking"):
                    out.append({"c": [plat, cv, lv], "client": client})
        # ... and revisions that are NOT shipped (one above the highest, and every gap between shipped ones): such a spa must be
        # refused, never served with the tables of a neighbouring revision
        for plat, v in sorted(packs.platforms().items()):
            for what in ("cfg", "log"):
                have = sorted(v[what])
                missing = sorted({x + 1 for x in have if x + 1 not in have and x + 1 < 256})[:3]
                for mv in missing:
                    cv, lv = (mv, v["log"][0]) if what == "cfg" else (v["cfg"][0], mv)
                    for client in ("async", "blocking"):
                        out.append({"c": [plat, cv, lv], "client": client, "unshipped": what})
        _LOOKUPS = out
    return _LOOKUPS


# ------------------------------------------------------------------ oracles


def _bits(mask):
    return mask.bit_length()


def _check_item(res, m, tag):
    ix = _index()
    pin = _pin().get(m)
    if m not in ix["shipped"]:
        res.fail(f"C18|pin|{m}|module-removed", f"pinned module {m} is no longer shipped")
        return
    ref_inst, ref_items = packs.ref_module(m)
    it = ref_items.get(tag)
    key_of = None
    if it is None:
        # maybe present under another dict key?
        if pin and tag in pin["items"]:
            res.fail(f"C18|pin|{m}|{tag}|removed", f"pinned item {tag} no longer in {m}")
        return
    sig = f"C18|wf|{m}|{tag}"
    # (1) addressable
    if not (isinstance(it.pos, int) and it.pos >= 0 and it.pos + it.width <= packs.BLOCK):
        res.fail(sig + "|outside-block", f"{tag}: bytes {it.pos}..{it.pos + it.width - 1} not inside the 1024-byte block")
    if it.width not in (1, 2):
        res.fail(sig + "|width", f"{tag}: field width {it.width}")
    if it.bitpos is not None:
        if not (0 <= it.bitpos and it.bitpos + _bits(it.mask) <= 8 * it.width):
            res.fail(sig + "|bitfield", f"{tag}: bitpos {it.bitpos} mask {it.mask} outside {it.width} byte(s)")
    if it.kind == "Enum":
        if it.labels is None or len(it.labels) == 0:
            res.fail(sig + "|labels", f"{tag}: enum without labels")
        elif len(it.labels) > it.capacity:
            res.fail(sig + "|overfull-enum",
                     f"{tag}: {len(it.labels)} labels but the field holds {it.capacity} values "
                     f"(bitpos={it.bitpos} maxitems={it.maxitems} width={it.width})")
    if it.tag != tag:
        res.fail(sig + "|key-tag", f"dict key {tag!r} but accessor tag {it.tag!r}")
    if it.rw not in (None, "ALL", "MANUF", "OEM", "INST", "USER") and not isinstance(it.rw, str):
        res.fail(sig + "|rw", f"{tag}: rw={it.rw!r}")
    # (2) pinned layout, through the real accessor's public attributes
    real = _real(m)
    if isinstance(real, Exception):
        res.fail(f"C18|load|{m}", f"table module does not load: {real!r}")
        return
    cur = real["items"].get(tag)
    if cur is None:
        res.fail(sig + "|real-missing", f"{tag} missing from real accessors")
        return
    # real accessor must agree with the reference geometry
    if (cur["pos"], cur["length"], cur["bitpos"]) != (it.pos, it.width, it.bitpos) or (
        it.bitpos is not None and cur["bitmask"] != it.mask
    ):
        res.fail(f"C18|geometry|{m}|{tag}",
                 f"accessor exposes pos/len/bitpos/mask {(cur['pos'], cur['length'], cur['bitpos'], cur['bitmask'])}, "
                 f"table declares {(it.pos, it.width, it.bitpos, it.mask)}")
    if pin is not None:
        was = pin["items"].get(tag)
        if was is None:
            res.fail(f"C18|pin|{m}|{tag}|added", f"item {tag} added to published table {m}")
        else:
            diff = [k for k in sorted(was) if was[k] != cur.get(k)]
            if diff:
                res.fail(f"C18|pin|{m}|{tag}|changed",
                         "; ".join(f"{k}: {was[k]!r} -> {cur.get(k)!r}" for k in diff)[:600])


def _check_module(res, m):
    ix = _index()
    pin = _pin().get(m)
    if m not in ix["shipped"]:
        res.fail(f"C18|pin|{m}|module-removed", f"pinned module {m} is no longer shipped")
        return
    kind, plat, ver = packs.classify(m)
    real = _real(m)
    if isinstance(real, Exception):
        res.fail(f"C18|load|{m}", f"table module does not load: {real!r}")
        return
    t = real["table"]
    sig = f"C18|table|{m}"
    if kind == "pack":
        if t["name"].lower() != m:
            res.fail(sig + "|name", f"GeckoPack.name {t['name']!r} vs module {m!r}")
        if not isinstance(t["type"], int) or not (0 <= t["type"] <= 255):
            res.fail(sig + "|type", f"pack type {t['type']!r}")
    else:
        if t["version"] != ver:
            res.fail(sig + "|version", f"declares version {t['version']} in file {m}")
        if plat not in ix["shipped"]:
            res.fail(sig + "|platform", f"no platform module {plat}.py for {m}")
        keys = set(real["items"])
        if kind == "cfg":
            for k in t["output_keys"]:
                if k not in keys:
                    res.fail(sig + f"|output_keys|{k}", f"output key {k} names no item")
        else:
            for k in t["user_demand_keys"]:
                if k not in keys:
                    res.fail(sig + f"|user_demand_keys|{k}", f"user demand key {k} names no item")
            for k in t["error_keys"]:
                if k not in keys:
                    res.fail(sig + f"|error_keys|{k}", f"error key {k} names no item")
            if not (isinstance(t["begin"], int) and isinstance(t["end"], int) and 0 <= t["begin"] < packs.BLOCK
                    and 0 < t["end"] and t["begin"] + t["end"] <= packs.BLOCK):
                # the client requests (start=begin, length=end): the window must be inside the block
                res.fail(sig + "|window", f"refresh window begin={t['begin']} end={t['end']}")
    if pin is not None:
        diff = [k for k in sorted(pin["table"]) if pin["table"][k] != t.get(k)]
        if diff:
            res.fail(f"C18|pin|{m}|table-changed",
                     "; ".join(f"{k}: {pin['table'][k]!r} -> {t.get(k)!r}" for k in diff)[:600])


# platform names a spa is known to report in FILES besides the pack's own name (the audited handler maps them)
REPORTED_NAMES = {"mrsteam": ["MrSt"]}


def _check_combo(res, plat, cv, lv):
    """what a spa reports in FILES for this combination resolves to the shipped module names"""
    from geckolib.driver import GeckoConfigFileProtocolHandler, GeckoStructure

    from .. import refcodec as R

    pack = packs.real_module(plat).GeckoPack(GeckoStructure(None))
    names = _index()["shipped"]
    want = (plat, f"{plat}-cfg-{cv}", f"{plat}-log-{lv}")
    # the reply as the library builds it from the pack's own name, and as a spa words it (reference codec), incl. the
    # shortened platform names real modules are known to report (pinned at the audited commit)
    bodies = [("own-name", GeckoConfigFileProtocolHandler.response(pack.name, cv, lv, parms=(1, 2, b"a", b"b"))._content)]
    for reported in [pack.name] + REPORTED_NAMES.get(plat, []):
        bodies.append((f"reported-{reported}", R.configfile_response(reported, cv, lv)))
    for label, body in bodies:
        h = GeckoConfigFileProtocolHandler()
        sig = f"C18|files|{plat}|{label}"
        try:
            h.handle(body, None)
        except Exception as exc:  # noqa
            res.fail(sig + "|parse", f"FILES reply {body!r} for {plat}/{cv}/{lv}: {exc!r}")
            continue
        key = h.plateform_key.lower()
        got = (key, f"{key}-cfg-{h.config_version}", f"{key}-log-{h.log_version}")
        if got != want:
            res.fail(sig + "|resolve", f"FILES {body!r} resolves to {got}, shipped modules are {want}")
        for g in got:
            if g not in names:
                res.fail(sig + "|module-missing", f"{g} not shipped")


def _check_lookup(res, plat, cv, lv, client, unshipped=None):
    """the clients' own module lookup: a spa that reports this platform / cfg / log in its FILES reply must end up with exactly
    the shipped table modules of that name (the real connection code runs against the in-process simulator)"""
    from geckolib.driver import GeckoStructure
    from geckolib.utils.snapshot import GeckoSnapshot
    from .. import clients, stepped, vworld

    pack = packs.real_module(plat).GeckoPack(GeckoStructure(None))
    snap = GeckoSnapshot()
    snap._pack_type = pack.name
    snap._config_version, snap._log_version = str(cv), str(lv)
    snap._intouch_EN, snap._intouch_CO = ("88", "15", "0"), ("89", "11", "0")
    snap._bytes = bytes(packs.BLOCK)
    sim = vworld.make_simulator(snap)
    want = (f"geckolib.driver.packs.{plat}", f"geckolib.driver.packs.{plat}-cfg-{cv}", f"geckolib.driver.packs.{plat}-log-{lv}")
    sig = f"C18|lookup|{client}|{plat}"
    got = None
    # Only the lookup is judged here: which table modules the client ends up with.  (Whether the rest of the connection copes
    # with a pack that lacks PackType / PackConfID items is not a naming question.)
    if client == "async":
        W = vworld.World()
        peer = W.add_peer(sim)
        out = {}

        async def main(W):
            from geckolib import GeckoAsyncSpa, GeckoAsyncSpaDescriptor, AsyncTasks
            tm = AsyncTasks()
            await tm.__aenter__()
            ev = clients.Events(W)
            spa = GeckoAsyncSpa(clients.CLIENT_ID, GeckoAsyncSpaDescriptor(sim.vp_identifier, sim.vp_name, peer.addr), tm, ev)
            try:
                try:
                    await spa.connect()
                except KeyError as exc:
                    out["later"] = repr(exc)
                out["mods"] = tuple(type(x).__module__ if x is not None else None for x in (spa.pack_class, spa.config_class, spa.log_class))
                out["events"] = [e[1].name for e in ev.log if "CANNOT" in e[1].name or "EXCEEDED" in e[1].name]
            finally:
                await spa.disconnect()
                await clients.shutdown(tm)

        W.run(main)
        got = out.get("mods")
        if unshipped:
            ix_ = 1 if unshipped == "cfg" else 2
            if got is not None and got[ix_] is not None:
                res.fail(f"C18|lookup|{client}|unshipped-revision-served", f"a spa reporting {pack.name} C{cv:02}/S{lv:02} (no such {unshipped} table is shipped) "
                         f"was given {got[ix_]}")
            return
        if out.get("events"):
            res.fail(sig + "|not-found", f"a spa reporting {pack.name} C{cv:02}/S{lv:02}: the client reports {out['events']}; modules {got}")
            return
    else:
        eng = stepped.Engine()
        with eng.patched():
            spa = stepped.make_threaded_spa(eng, sim)
            spa.start_connect()
            try:
                stepped.run_until(eng, lambda: (spa._is_connected or spa.is_in_error or spa.new_log_class is not None) and not eng.inbox, max_iterations=6000)
            except KeyError:
                pass
            except Exception as exc:  # noqa  (the library raises plain Exception when a table module is missing)
                if unshipped:
                    return      # refused: what the property asks for
                res.fail(sig + "|not-found", f"blocking client, spa reporting {pack.name} C{cv:02}/S{lv:02}: {type(exc).__name__}: {exc}")
                return
            got = tuple(type(x).__module__ if x is not None else None for x in (spa.new_pack_class, spa.new_config_class, spa.new_log_class))
            if unshipped:
                ix_ = 1 if unshipped == "cfg" else 2
                if got[ix_] is not None:
                    res.fail(f"C18|lookup|{client}|unshipped-revision-served", f"a spa reporting {pack.name} C{cv:02}/S{lv:02} (no such {unshipped} table is "
                             f"shipped) was given {got[ix_]}")
                return
    if got != want:
        res.fail(sig + "|wrong-module", f"spa reports {pack.name} C{cv:02}/S{lv:02}: client loaded {got}, shipped tables are {want}")


def run_case(case) -> Result:
    res = Result()
    res.nontrivial = True
    k = case.get("k")
    if k == "lookup":
        _check_lookup(res, case["c"][0], int(case["c"][1]), int(case["c"][2]), case.get("client", "async"), case.get("unshipped"))
        res.label("lookup-" + case.get("client", "async"))
        return res
    if k == "item":
        _check_item(res, case["m"], case["tag"])
        res.label("item")
    elif k == "module":
        _check_module(res, case["m"])
        res.label("module")
    elif k == "combo":
        _check_combo(res, *case["c"])
        res.label("combo")
    else:
        raise InvalidCase(case)
    return res


if __name__ == "__main__":
    if sys.argv[1:] == ["--make-pin"]:
        d = make_pin()
        print("pinned", len(d), "modules", sum(len(v["items"]) for v in d.values()), "items ->", PIN)
