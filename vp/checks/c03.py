"""C03  Change notifications fire exactly once, iff the decoded value changed.

Histories of block updates (partial patches at generated offsets/lengths, bit flips, full
refreshes) and watch/unwatch calls on real structures with the real accessors of a shipped
cfg+log pair; the expected notifications come from the reference decoder of vp/packs.py.
"""
import hashlib

from hypothesis import strategies as st

from .. import packs
from ..runner import InvalidCase, Result

ID = "C03"
LEVEL = "exploration"
RULE = (
    "generated histories (<=10 ops) over a Hypothesis-chosen cfg+log pair (all 895 combinations "
    "reachable), structure class and start block: ops = patch at an item-anchored offset "
    "(delta -1/0/+1, length 1..5, random bytes), sparse bit flips inside an item's bytes, full "
    "refresh (new or identical block), watch / watch-twice / unwatch / unwatch_all with plain "
    "functions and bound methods, and observers that act from inside their callback (remove a later observer, themselves or all "
    "observers; apply a nested update to a far-away item). All items of the pair are watched. Non-trivial = an update "
    "that touches bytes of an item without changing its decoded value, or touches exactly one "
    "byte of a 2-byte item, or a history with an unwatch/double watch; distinct by canonical case."
)
ASSUMPTIONS = [
    "expected values come from the reference decoder (table constructor arguments), temperatures compare the stored word",
    "when one update changes both the unit item and a temperature word only count/exactly-once is checked for that temperature, not the argument values",
    "an observer that re-writes the very item it is being told about (second update applied from inside the callback): that item must tell every observer about both changes exactly once; by-stander items sharing its bytes are not judged (the two updates overlap, the property does not determine their (old, new) pairs)",
]
BUDGET = {
    "quick": {"workers": 16, "examples": 9600},
    "thorough": {"workers": 16, "examples": 80000},
}


def _prng(*parts, n):
    out = b""
    ctr = 0
    seed = repr(parts).encode()
    while len(out) < n:
        out += hashlib.blake2b(seed + ctr.to_bytes(4, "big")).digest()
        ctr += 1
    return out[:n]


class _Recorder:
    """observer owner: cb is looked up freshly each time (a new bound-method object)"""

    def __init__(self, log, oid, struct):
        self.log, self.oid, self.struct = log, oid, struct

    def cb(self, sender, old, new):
        self.log.append((self.oid, sender, old, new, self.struct.status_block))


_ctx_cache = {}


def _ctx(plat, cv, lv, cls):
    """real structure + accessors, reused between cases of a worker (observers cleared)"""
    from geckolib.driver import GeckoAsyncStructure, GeckoStructure

    k = (plat, cv, lv, cls)
    c = _ctx_cache.get(k)
    if c is None:
        if len(_ctx_cache) > 24:
            _ctx_cache.clear()
        s = GeckoStructure(None) if cls == "sync" else GeckoAsyncStructure(None, None)
        packs.build_real(s, plat, cv, lv)
        p = packs.pair(plat, cv, lv)
        tags = sorted(p.items)
        by_byte = {}
        for t in tags:
            it = p.items[t]
            if it.pos + it.width <= packs.BLOCK:
                for b in it.bytes_range():
                    by_byte.setdefault(b, []).append(t)
        two = [t for t in tags if p.items[t].width == 2 and p.items[t].pos + 2 <= packs.BLOCK]
        c = _ctx_cache[k] = (s, p, tags, by_byte, two)
    for a in c[0].accessors.values():
        a.unwatch_all()
    return c


N_OBS = 3  # observer ids 0 (default on every item, plain function), 1 (function), 2 (bound method)


def strategy(tier):
    ncombo = len(packs.combos())
    anchor = st.tuples(st.integers(0, 2000), st.sampled_from([-1, 0, 0, 1]), st.integers(1, 5))
    ops = st.one_of(
        st.builds(lambda a, s: ["patch", a[0], a[1], a[2], s], anchor, st.integers(0, 2**32)),
        st.builds(lambda a, s: ["patch", a[0], a[1], a[2], s], anchor, st.integers(0, 2**32)),
        st.builds(lambda i, bits: ["flip", i, bits], st.integers(0, 2000),
                  st.lists(st.integers(0, 15), min_size=1, max_size=3)),
        st.builds(lambda i, bits: ["flip2", i, bits], st.integers(0, 2000),
                  st.lists(st.integers(0, 15), min_size=1, max_size=2)),
        st.builds(lambda s: ["full", s], st.integers(0, 2**32)),
        st.just(["fullsame"]),
        st.builds(lambda o, ln, s: ["patchabs", o, ln, s], st.integers(0, 1023), st.integers(1, 64), st.integers(0, 2**32)),
        st.builds(lambda i, o: ["watch", i, o], st.integers(0, 2000), st.integers(1, N_OBS - 1)),
        st.builds(lambda i, o: ["watch2", i, o], st.integers(0, 2000), st.integers(1, N_OBS - 1)),
        st.builds(lambda i, o: ["unwatch", i, o], st.integers(0, 2000), st.integers(0, N_OBS - 1)),
        st.builds(lambda i: ["unwatch_all", i], st.integers(0, 2000)),
    )
    # macros (flattened into the op list): observer churn on ONE item followed by a change of that item - dropping every observer
    # and registering the same callable again, unwatch + re-watch, double registration after a drop
    bits = st.lists(st.integers(0, 15), min_size=1, max_size=3)
    churn = st.one_of(
        st.builds(lambda i, o, b: [["unwatch_all", i], ["watch", i, o], ["flip", i, b]], st.integers(0, 2000), st.integers(0, N_OBS - 1), bits),
        st.builds(lambda i, o, b: [["watch", i, o], ["unwatch", i, o], ["watch", i, o], ["flip", i, b]], st.integers(0, 2000), st.integers(1, N_OBS - 1), bits),
        st.builds(lambda i, o, b: [["unwatch_all", i], ["watch2", i, o], ["flip", i, b], ["unwatch", i, o], ["flip", i, b]],
                  st.integers(0, 2000), st.integers(0, N_OBS - 1), bits),
    )
    reent = st.builds(lambda i, a, b: [["reent", i, a, b]], st.integers(0, 2000), st.sampled_from(["unwatch-later", "unwatch-self", "unwatch-all", "poke", "poke-same"]), bits)
    unitflip = st.builds(lambda i: [["unitflip", i]], st.integers(0, 50))
    item = st.one_of(ops.map(lambda o: [o]), ops.map(lambda o: [o]), ops.map(lambda o: [o]), ops.map(lambda o: [o]), churn, reent, unitflip)
    refresh = st.builds(lambda cls, i, k, e, n, seed, sd: {"k": "refresh", "cls": cls, "item": i, "kseg": k, "extra": e, "nmut": n, "seed": seed, "straddle": sd},
                        st.sampled_from(["async", "sync"]), st.integers(0, 400), st.integers(0, 30), st.integers(0, 3), st.integers(0, 6),
                        st.integers(0, 2**32), st.sampled_from([True, True, False]))
    hist = st.builds(
        lambda ci, cls, seed, fill, o: {"combo": ci, "cls": cls, "seed": seed, "fill": fill, "ops": [x for grp in o for x in grp][:14]},
        st.integers(0, ncombo - 1),
        st.sampled_from(["sync", "async"]),
        st.integers(0, 2**32),
        st.sampled_from(["rnd", "rnd", "zero", "ones"]),
        st.lists(item, min_size=1, max_size=10),
    )
    rec_ = st.tuples(st.integers(0, 5), st.lists(st.integers(0, 15), min_size=1, max_size=2)).map(list)   # few items: they come back
    statpseq = st.builds(lambda cls, seq, base: {"k": "statpseq", "cls": cls, "seq": [[[base + r[0] * 7, r[1]] for r in m] for m in seq]},
                         st.sampled_from(["sync", "sync", "async"]), st.lists(st.lists(rec_, min_size=1, max_size=2), min_size=2, max_size=6), st.integers(0, 2000))
    return st.integers(0, 9).flatmap(lambda i: refresh if i in (0, 1) else (statpseq if i == 2 else hist))


# ------------------------------------------------------------------ refresh through the real transfer code
SEG = 39
_snapc = {}


def _snap_pair():
    from .. import vworld
    if not _snapc:
        snap = vworld.load_snapshot(vworld.default_snapshot_path())[0]
        plat, cv, lv = snap.packtype.lower(), snap.config_version, snap.log_version
        p = packs.pair(plat, cv, lv)
        two = sorted(t for t in p.items if p.items[t].width == 2 and p.items[t].pos + 1 >= SEG and p.items[t].pos + 2 <= packs.BLOCK)
        _snapc.update(snap=snap, plat=plat, cv=cv, lv=lv, p=p, two=two)
    return _snapc


def _run_refresh(res, case):
    """a multi-segment refresh is ONE update: the real transfer code (async get() on the virtual loop / threaded structure on the
    stepped engine) fetches a range of a silently changed simulator block; a 2-byte item lies across a segment boundary and both
    of its bytes changed, further changes lie in other segments"""
    from .. import clients, stepped, vworld
    from ..runner import SetupFailed

    c = _snap_pair()
    p, two = c["p"], c["two"]
    it = p.items[two[case["item"] % len(two)]]
    rnd = _prng("rf", case["seed"], n=64)
    if case.get("straddle", True):
        k = 1 + case["kseg"] % min(3, (it.pos + 1) // SEG)
        start = it.pos + 1 - SEG * k
    else:
        start = (case["kseg"] * 7) % max(1, it.pos)
        k = (it.pos - start) // SEG + 1
    length = min(packs.BLOCK - start, SEG * (k + 1 + case["extra"] % 4))
    C = c["snap"].bytes
    S = bytearray(C)
    S[it.pos] ^= rnd[0] | 1
    S[it.pos + 1] ^= rnd[1] | 1
    for j in range(case["nmut"] % 7):
        pos = start + (rnd[2 + 2 * j] * 256 + rnd[3 + 2 * j]) % length
        S[pos] ^= rnd[20 + j] | 1
    S = bytes(S)
    log = []

    def watch_all(struct, accessors):
        for t, acc in accessors.items():
            def fn(sender, old, new, _t=t):
                log.append((_t, sender, old, new, struct.status_block))
            acc.watch(fn)

    if case["cls"] == "async":
        from geckolib.driver import GeckoStatusBlockProtocolHandler
        W = vworld.World()
        sim = vworld.make_simulator()
        peer = W.add_peer(sim)
        out = {}

        async def main(W):
            spa, tm, ev = await clients.connect_async_spa(W, peer)
            try:
                if spa.struct.status_block != C:
                    raise SetupFailed("connected client does not hold the snapshot block")
                watch_all(spa.struct, spa.accessors)
                out["acc"] = dict(spa.accessors)
                sim.structure.set_status_block(S)
                ok = await spa.struct.get(spa._protocol, lambda: GeckoStatusBlockProtocolHandler.request(
                    spa._protocol.get_and_increment_sequence_counter(False), start, length, parms=spa.sendparms), 3)
                out["ok"], out["final"] = ok, spa.struct.status_block
            finally:
                await clients.shutdown(tm)
        W.run(main)
    elif case["cls"] == "sync":
        out = {}

        def hook(struct):
            packs.build_real(struct, c["plat"], c["cv"], c["lv"])
            struct.set_status_block(C)
            watch_all(struct, struct.accessors)
            out["acc"] = dict(struct.accessors)
        r = stepped.run_structure_transfers(S, C, [{"start": start, "len": length, "c2s": [], "s2c": []}], struct_hook=hook)[0]
        out["ok"], out["final"] = r["ok"], r["block"]
    else:
        raise InvalidCase(case)
    if not out["ok"]:
        raise SetupFailed("fault-free refresh failed")
    final = out["final"]
    if final[it.pos:it.pos + 2] != S[it.pos:it.pos + 2]:
        raise SetupFailed("refresh did not install the changed word")
    calls = {}
    for t, sender, o, n, blk in log:
        calls.setdefault(t, []).append((sender, o, n, blk))
    unit_changed = p.unit(C) != p.unit(final) if "TempUnits" in p.items else False
    for t, item in p.items.items():
        if item.pos + item.width > packs.BLOCK or t not in out["acc"]:
            continue
        got = calls.get(t, [])
        changed = item.stored(C) != item.stored(final)
        where = "straddles-segment-boundary" if (item.width == 2 and (item.pos + 1 - start) % SEG == 0 and start <= item.pos < start + length) else "inside-segment"
        tail = f"refresh|{case['cls']}|{where}"
        if changed and not got:
            res.fail(f"C03|missing-notification|{tail}", f"{t}: {item.stored(C)!r} -> {item.stored(final)!r} by refresh({start},{length}) but no observer call")
        elif len(got) > (1 if changed else 0):
            res.fail(f"C03|{'duplicate' if changed else 'spurious'}-notification|{tail}",
                     f"{t}: {len(got)} calls {[(g[1], g[2]) for g in got]} for one refresh({start},{length}); value {item.stored(C)!r} -> {item.stored(final)!r}")
        if changed and got:
            sender, o, n, blk = got[0]
            if blk != final:
                res.fail(f"C03|stale-block-in-callback|refresh|{case['cls']}", f"{t}: the observer read a block that is not the refreshed block "
                         f"(differs at {[i for i in range(packs.BLOCK) if blk[i] != final[i]][:6]})")
            if item.kind != "Temp":
                eo, en = item.decode(C), item.decode(final)
                if (o, n) != (eo, en):
                    res.fail(f"C03|wrong-args|refresh|{item.kind}", f"{t}: observer got ({o!r},{n!r}) expected ({eo!r},{en!r})")
            elif not unit_changed:
                u = p.unit(final)
                eo, en = float(packs.temp_value(item.stored(C), u)), float(packs.temp_value(item.stored(final), u))
                if abs(o - eo) > 1e-9 or abs(n - en) > 1e-9:
                    res.fail("C03|wrong-args|refresh|Temp", f"{t}: ({o!r},{n!r}) expected ({eo!r},{en!r})")
    res.nontrivial = True
    res.label("refresh-" + case["cls"], "refresh-straddle" if case.get("straddle", True) else "refresh-anywhere")
    return res


def _run_statpseq(res, case):
    """a sequence of unsolicited partial updates through a really connected client (blocking client on the stepped engine / async
    client on the virtual loop): per received message every watched item notifies exactly once iff its value differs between the
    block before and after that message - also when a later message takes an item back to an earlier value"""
    from .. import clients, refcodec as R, stepped, vworld
    from ..runner import SetupFailed

    c = _snap_pair()
    p = c["p"]
    tags = sorted(t for t in p.items if p.items[t].pos + p.items[t].width <= packs.BLOCK)
    log = []

    def watch_all(struct, accessors):
        for t, acc in accessors.items():
            def fn(sender, old, new, _t=t):
                log.append((_t, sender, old, new, struct.status_block))
            acc.watch(fn)

    def messages(block):
        """toggle messages: the same (item, bits) later in the sequence takes the item back to where it was"""
        cur = block
        for recs in case["seq"]:
            msg = []
            seen = set()
            for ti, bits in recs:
                it = p.items[tags[int(ti) % len(tags)]]
                # (each record is an update of its own: two records of ONE message toggling the same bytes there and back would
                # rightly be announced twice - a message names every position once)
                if any(b_ in seen for b_ in it.bytes_range()) or it.pos + 2 > packs.BLOCK and it.width == 1 and (it.pos - 1) in seen:
                    continue
                seen.update(range(min(it.pos, packs.BLOCK - 2), min(it.pos, packs.BLOCK - 2) + 2))
                w = int.from_bytes(cur[it.pos:it.pos + it.width], "big")
                for b_ in bits:
                    w ^= 1 << (int(b_) % (8 * it.width))
                pos = it.pos if it.width == 2 else min(it.pos, packs.BLOCK - 2)
                word = w.to_bytes(it.width, "big") if it.width == 2 else (bytes([w]) + cur[pos + 1:pos + 2] if pos == it.pos else cur[pos:pos + 1] + bytes([w]))
                cur = cur[:pos] + word + cur[pos + 2:]
                msg.append((pos, word))
            if msg:
                yield msg, cur

    def judge(n, before, after, final):
        calls = {}
        for t, sender, o, n_, blk in log:
            calls.setdefault(t, []).append((o, n_, blk))
        if final != after:
            res.fail(f"C03|statp-sequence|{case['cls']}|block", f"message #{n}: the client block is not the block before + this message's records")
            return
        for t in tags:
            it = p.items[t]
            got = calls.get(t, [])
            changed = it.stored(before) != it.stored(after)
            if len(got) != (1 if changed else 0):
                res.fail(f"C03|statp-sequence|{case['cls']}|{'missing' if len(got) < changed else ('duplicate' if changed else 'spurious')}-notification",
                         f"message #{n} of {len(case['seq'])}: {t} {it.stored(before)!r} -> {it.stored(after)!r} across the message, observer called {len(got)} times "
                         f"{[(g[0], g[1]) for g in got][:3]}")
                return
            if changed and it.kind != "Temp" and (got[0][0], got[0][1]) != (it.decode(before), it.decode(after)):
                res.fail(f"C03|statp-sequence|{case['cls']}|wrong-args", f"message #{n}: {t} observer got ({got[0][0]!r},{got[0][1]!r}), expected "
                         f"({it.decode(before)!r},{it.decode(after)!r})")
                return

    if case["cls"] == "sync":
        sim = vworld.make_simulator()
        eng = stepped.Engine()
        with eng.patched():
            spa, ok = stepped.connect_threaded_spa(eng, sim)
            if not ok:
                raise SetupFailed("threaded handshake failed fault-free")
            watch_all(spa.struct, spa.struct.accessors)
            q = stepped.quiescent(eng, spa)
            before = spa.struct.status_block
            for n, (msg, after) in enumerate(messages(before)):
                del log[:]
                eng.deliver(R.frame(stepped.SPA_ID, stepped.CLIENT_ID, R.partial_update(msg)), stepped.SPA_ADDR)
                if not stepped.run_until(eng, q):
                    raise SetupFailed("threaded client not quiescent")
                t_end = eng.vt.t + 0.3
                stepped.run_until(eng, lambda: eng.vt.t >= t_end)
                judge(n, before, after, spa.struct.status_block)
                if res.violations:
                    break
                before = after
    elif case["cls"] == "async":
        W = vworld.World()
        sim = vworld.make_simulator()
        peer = W.add_peer(sim)

        async def main(W):
            spa, tm, ev = await clients.connect_async_spa(W, peer)
            try:
                watch_all(spa.struct, spa.accessors)
                before = spa.struct.status_block
                for n, (msg, after) in enumerate(messages(before)):
                    del log[:]
                    W.inject(W.transports[-1], R.frame(sim.vp_identifier, clients.CLIENT_ID, R.partial_update(msg)), peer.addr)
                    await W.sleep(0.8)
                    judge(n, before, after, spa.struct.status_block)
                    if res.violations:
                        break
                    before = after
            finally:
                await clients.shutdown(tm)
        W.run(main)
    else:
        raise InvalidCase(case)
    res.nontrivial = len(case["seq"]) >= 3
    res.label("statp-sequence-" + case["cls"])
    return res


def _geometry(it, off, ln):
    a, b = max(off, it.pos), min(off + ln, it.pos + it.width)
    n = b - a
    if n <= 0:
        return "none"
    if n == it.width:
        return "covers"
    return "first-byte-only" if a == it.pos else "second-byte-only"


def run_case(case) -> Result:
    res = Result()
    if case.get("k") == "refresh":
        return _run_refresh(res, case)
    if case.get("k") == "statpseq":
        return _run_statpseq(res, case)
    combos = packs.combos()
    plat, cv, lv = combos[case["combo"] % len(combos)]
    cls = case["cls"]
    if cls not in ("sync", "async"):
        raise InvalidCase(case)
    s, p, tags, by_byte, two = _ctx(plat, cv, lv, cls)
    if case["fill"] == "zero":
        block = bytes(packs.BLOCK)
    elif case["fill"] == "ones":
        block = b"\xff" * packs.BLOCK
    else:
        block = _prng("b0", case["seed"], n=packs.BLOCK)
    s.set_status_block(block)

    log = []
    recs = {}
    funcs = {}

    def observer(tag, oid):
        """the callable registered for (item, observer id); bound method for oid 2"""
        key = (tag, oid)
        if oid == 2:
            if key not in recs:
                recs[key] = _Recorder(log, key, s)
            return recs[key].cb  # a fresh bound-method object every time
        if key not in funcs:
            def fn(sender, old, new, _k=key):
                log.append((_k, sender, old, new, s.status_block))
            funcs[key] = fn
        return funcs[key]

    model = {t: [0] for t in tags}  # registered observer ids per item
    for t in tags:
        s.accessors[t].watch(observer(t, 0))

    nontrivial = False
    hist_special = False

    def do_update(off, seg, label, reent=None):
        """reent (observer acting from inside its callback): {"override": {(tag, oid): expected calls}, "nested": (off, seg) or None}"""
        nonlocal block, nontrivial
        old = block
        new = old[:off] + seg + old[off + len(seg):]
        assert len(new) == packs.BLOCK
        log.clear()
        s.replace_status_block_segment(off, seg)
        block = new
        override = (reent or {}).get("override", {})
        nested = (reent or {}).get("nested")
        final = new
        if nested is not None and nested.get("fired"):
            final = new[:nested["off"]] + nested["seg"] + new[nested["off"] + len(nested["seg"]):]
            block = final
        if s.status_block != final:
            res.fail("C03|block-not-replaced", f"{label}: structure block differs from old[:off]+segment+old[off+len:]")
        touched = set()
        for b in range(off, off + len(seg)):
            for t in by_byte.get(b, ()):
                touched.add(t)
        calls = {}
        for key, sender, o, n, blk in log:
            calls.setdefault(key, []).append((sender, o, n, blk))
        unit_changed = p.unit(old) != p.unit(new) if "TempUnits" in p.items else False
        unit_new = p.unit(new) if "TempUnits" in p.items else None
        # items that must / must not notify
        nested_items = set()
        if nested is not None and nested.get("fired"):
            for b in range(nested["off"], nested["off"] + len(nested["seg"])):
                nested_items.update(by_byte.get(b, ()))
        for t in touched:
            it = p.items[t]
            if t in nested_items and t != (reent or {}).get("same"):
                # shares bytes with the item an observer re-writes from inside its callback: for such a by-stander the two updates
                # overlap in time and the property does not say which (old, new) pairs it is told - not judged
                for oid in list(model[t]):
                    calls.pop((t, oid), None)
                continue
            if t in nested_items:
                # the item is changed by the outer update AND by the update an observer applied from inside its callback: every
                # registered observer is told about each of the two changes exactly once
                exp = [(a_, b_) for a_, b_ in ((old, new), (new, final)) if it.stored(a_) != it.stored(b_)]
                for oid in model[t]:
                    got = calls.pop((t, oid), [])
                    if len(got) != len(exp):
                        res.fail(f"C03|reentrant|nested-same-item|{'missing' if len(got) < len(exp) else 'extra'}",
                                 f"{t}: observer {oid} called {len(got)} times for {len(exp)} changes of the item (outer update + nested update of the same item "
                                 f"from inside a callback): {[(g[1], g[2]) for g in got]}")
                    elif it.kind != "Temp" and sorted((repr(g[1]), repr(g[2])) for g in got) != sorted((repr(it.decode(a_)), repr(it.decode(b_))) for a_, b_ in exp):
                        res.fail(f"C03|reentrant|nested-same-item|args", f"{t}: observer {oid} got {[(g[1], g[2]) for g in got]}, expected "
                                 f"{[(it.decode(a_), it.decode(b_)) for a_, b_ in exp]}")
                continue
            geo = _geometry(it, off, len(seg))
            so, sn = it.stored(old), it.stored(new)
            changed = so != sn
            if not changed and it.field(old) != it.field(new):
                nontrivial = True
            if geo in ("first-byte-only", "second-byte-only"):
                nontrivial = True
            sig_tail = f"{it.kind}|w{it.width}|{'bits' if it.mask is not None else 'whole'}|{geo}"
            for oid in model[t]:
                got = calls.pop((t, oid), [])
                if (t, oid) in override:
                    # an observer that an earlier observer of the same round removed must not be called any more; one that was
                    # not removed must still be called although the list changed under the iteration
                    want = override[(t, oid)] if changed else 0
                    if len(got) != want:
                        res.fail(f"C03|reentrant|{label}|{'called-after-removal' if len(got) > want else 'skipped'}",
                                 f"{t}: observer {oid} called {len(got)} times, expected {want} ({label}: an earlier observer acts from inside its callback)")
                    continue
                if changed and len(got) == 0:
                    res.fail(f"C03|missing-notification|{sig_tail}",
                             f"{plat}/{cv}/{lv} {t} ({label} off={off} len={len(seg)}): value {so!r} -> {sn!r} but observer {oid} was not called")
                elif changed and len(got) > 1:
                    res.fail(f"C03|duplicate-notification|{sig_tail}",
                             f"{t}: observer {oid} called {len(got)} times for one change {so!r} -> {sn!r}")
                elif not changed and got:
                    res.fail(f"C03|spurious-notification|{sig_tail}",
                             f"{t} ({label} off={off} len={len(seg)}): decoded value unchanged ({so!r}) but observer {oid} called with {got[0][1]!r} -> {got[0][2]!r}")
                if changed and len(got) >= 1:
                    sender, o, n, blk = got[0]
                    if sender is not s.accessors[t]:
                        res.fail(f"C03|wrong-sender|{it.kind}", f"{t}: sender {sender!r}")
                    if blk != new and blk != final:
                        res.fail(f"C03|stale-block-in-callback|{it.kind}", f"{t}: observer read a block that is not the new block")
                    if it.kind == "Temp":
                        if not unit_changed:
                            eo, en = float(packs.temp_value(so, unit_new)), float(packs.temp_value(sn, unit_new))
                            if abs(o - eo) > 1e-9 or abs(n - en) > 1e-9:
                                res.fail("C03|wrong-args|Temp", f"{t}: ({o!r},{n!r}) expected ({eo!r},{en!r})")
                    else:
                        eo, en = it.decode(old), it.decode(new)
                        if (o, n) != (eo, en) or type(o) is not type(eo) or type(n) is not type(en):
                            res.fail(f"C03|wrong-args|{it.kind}", f"{t}: observer got ({o!r},{n!r}) expected ({eo!r},{en!r})")
        # the nested update an observer made from inside its callback: every item it touches notifies exactly once iff changed
        if nested is not None and nested.get("fired"):
            for t in sorted(nested_items - touched):
                if True:
                    it = p.items[t]
                    ch = it.stored(new) != it.stored(final)
                    for oid in model[t]:
                        got = calls.pop((t, oid), None)
                        if got is None:
                            got = []
                        if len(got) != (1 if ch else 0):
                            res.fail(f"C03|reentrant|nested-update|{it.kind}", f"{t}: observer {oid} called {len(got)} times for the nested update "
                                     f"({it.stored(new)!r} -> {it.stored(final)!r})")
        # anything left was a call for an item that was not touched or an observer not registered
        for (t, oid), got in calls.items():
            it = p.items[t]
            if oid not in model[t]:
                res.fail(f"C03|removed-observer-called|{it.kind}", f"{t}: observer {oid} is not registered but was called")
            else:
                res.fail(f"C03|notification-outside-update|{it.kind}|w{it.width}",
                         f"{t} (bytes {it.pos}+{it.width}) notified for update off={off} len={len(seg)} that does not touch it")

    for op in case["ops"]:
        k = op[0]
        if k == "patch":
            it = p.items[tags[op[1] % len(tags)]]
            if it.pos + it.width > packs.BLOCK:
                continue
            off = min(max(it.pos + op[2], 0), packs.BLOCK - 1)
            ln = max(1, min(op[3], packs.BLOCK - off))
            do_update(off, _prng("p", op[4], n=ln), "patch")
        elif k == "patchabs":
            off = op[1] % packs.BLOCK
            ln = max(1, min(op[2], packs.BLOCK - off))
            do_update(off, _prng("pa", op[3], n=ln), "patchabs")
        elif k in ("flip", "flip2"):
            pool = two if (k == "flip2" and two) else tags
            it = p.items[pool[op[1] % len(pool)]]
            if it.pos + it.width > packs.BLOCK:
                continue
            cur = int.from_bytes(block[it.pos:it.pos + it.width], "big")
            for bit in op[2]:
                cur ^= 1 << (bit % (8 * it.width))
            seg = cur.to_bytes(it.width, "big")
            if k == "flip2":
                # send only the byte that changed if a single byte changed (one-byte touch of a 2-byte item)
                oldseg = block[it.pos:it.pos + it.width]
                diff = [i for i in range(it.width) if seg[i] != oldseg[i]]
                if len(diff) == 1:
                    do_update(it.pos + diff[0], seg[diff[0]:diff[0] + 1], "flip-one-byte")
                    continue
            do_update(it.pos, seg, "flip")
        elif k == "full":
            do_update(0, _prng("f", op[1], n=packs.BLOCK), "full")
        elif k == "fullsame":
            do_update(0, block, "full-identical")
        elif k in ("watch", "watch2"):
            t = tags[op[1] % len(tags)]
            oid = op[2] % N_OBS
            s.accessors[t].watch(observer(t, oid))
            if k == "watch2":
                s.accessors[t].watch(observer(t, oid))
                hist_special = True
            if oid not in model[t]:
                model[t].append(oid)
            else:
                hist_special = True
        elif k == "unwatch":
            t = tags[op[1] % len(tags)]
            oid = op[2] % N_OBS
            if oid in model[t]:
                s.accessors[t].unwatch(observer(t, oid))
                model[t].remove(oid)
                hist_special = True
        elif k == "unwatch_all":
            t = tags[op[1] % len(tags)]
            s.accessors[t].unwatch_all()
            model[t] = []
            hist_special = True
        elif k == "unitflip":
            # one update that flips the display unit and covers a temperature item whose stored reading does not change
            if "TempUnits" not in p.items:
                continue
            temps = [t for t in tags if p.items[t].kind == "Temp" and p.items[t].pos + 2 <= packs.BLOCK]
            if not temps:
                continue
            ti = p.items[temps[op[1] % len(temps)]]
            ui = p.items["TempUnits"]
            lo = min(ti.pos, ui.pos)
            hi = max(ti.pos + ti.width, ui.pos + ui.width)
            pos_, w_, word_ = ui.encode_raw(block, (ui.raw(block) + 1) % max(2, min(ui.capacity, len(ui.labels or [0, 1]))))
            nb = block[:pos_] + int(word_).to_bytes(w_, "big") + block[pos_ + w_:]
            do_update(lo, nb[lo:hi], "unit-flip")
        elif k == "reent":
            # two extra observers A, B on one item; A acts from inside its callback, then the item is changed
            t = tags[op[1] % len(tags)]
            it = p.items[t]
            action = op[2]
            if action not in ("unwatch-later", "unwatch-self", "unwatch-all", "poke", "poke-same"):
                raise InvalidCase(op)
            if it.pos + it.width > packs.BLOCK or "A" in model[t]:
                continue
            cur = int.from_bytes(block[it.pos:it.pos + it.width], "big")
            for bit in op[3]:
                cur ^= 1 << (bit % (8 * it.width))
            seg = cur.to_bytes(it.width, "big")
            if action == "poke":
                # a wider outer update: items after this one (in table order) change too and must still be told about it
                extra = max(0, min(6, packs.BLOCK - (it.pos + it.width)))
                seg = seg + bytes(b ^ 0xFF for b in block[it.pos + it.width:it.pos + it.width + extra])
            newblk = block[:it.pos] + seg + block[it.pos + len(seg):]
            if it.stored(block) == it.stored(newblk):
                continue   # the item would not change: nothing fires
            acc = s.accessors[t]
            nested = None
            if action == "poke":
                # a write to a far-away item, applied at once (local echo), disjoint from everything the outer update touches
                zoff = (it.pos + 512) % (packs.BLOCK - 2)
                zseg = bytes([block[zoff] ^ 0x5A, block[zoff + 1] ^ 0xA5])
                nested = {"off": zoff, "seg": zseg, "fired": False}
            elif action == "poke-same":
                # the observer writes the item it is being told about (e.g. snaps a set point back): a second change of the SAME item,
                # applied at once, from inside the notification of the first
                v2 = cur
                for bit in op[3][:1]:
                    v2 ^= 1 << ((bit + 1) % (8 * it.width))
                v2 ^= 1
                nested = {"off": it.pos, "seg": v2.to_bytes(it.width, "big"), "fired": False}
            state = {"done": False}

            def obs_a(sender, old_v, new_v, _t=t):
                log.append(((_t, "A"), sender, old_v, new_v, s.status_block))
                if state["done"]:
                    return
                state["done"] = True
                if action == "unwatch-later":
                    acc.unwatch(obs_b)
                elif action == "unwatch-self":
                    acc.unwatch(obs_a)
                elif action == "unwatch-all":
                    acc.unwatch_all()
                else:
                    nested["fired"] = True
                    s.replace_status_block_segment(nested["off"], nested["seg"])

            def obs_b(sender, old_v, new_v, _t=t):
                log.append(((_t, "B"), sender, old_v, new_v, s.status_block))

            acc.watch(obs_a)
            acc.watch(obs_b)
            model[t] = model[t] + ["A", "B"]
            override = {(t, "A"): 1, (t, "B"): 1 if action in ("unwatch-self", "poke") else 0}
            if action == "poke-same":
                override = {}
            do_update(it.pos, seg, "reentrant-" + action, reent={"override": override, "nested": nested, "same": t if action == "poke-same" else None})
            # what is still registered afterwards
            if action == "unwatch-all":
                model[t] = []
            else:
                left = [o for o in model[t] if o not in ("A", "B")]
                if action in ("unwatch-later", "poke", "poke-same"):
                    acc.unwatch(obs_a)
                    if action in ("poke", "poke-same"):
                        acc.unwatch(obs_b)
                elif action == "unwatch-self":
                    acc.unwatch(obs_b)
                model[t] = left
            hist_special = True
        else:
            raise InvalidCase(op)
    res.nontrivial = nontrivial or hist_special
    res.label("cls-" + cls)
    if nontrivial:
        res.label("byte-touch-no-change-or-partial")
    if hist_special:
        res.label("watch-history")
    return res
