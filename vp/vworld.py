"""E3: virtual-time asyncio world.

* VLoop: SelectorEventLoop whose selector advances a virtual clock instead of sleeping; the
  clock also advances 1 microsecond on every read (nominal schedule = timers fire in the order
  they were armed).  time.monotonic is replaced by the same clock while a case runs.
* Jitter tape: every call_at gets a non-negative extra latency from a generated list
  (asyncio.sleep(d) promises *at least* d, so each such schedule is legal); stalls model a
  blocking callback.  The ready queue stays FIFO.
* Network: FIFO datagram delivery with base latency and the simulator's 20 ms send pacing,
  exempt from the jitter tape; faults only as explicit tape entries / phases.
* Peers: the library's own GeckoSimulator driven in-process (never started, no thread, no
  socket).
"""
from __future__ import annotations

import asyncio
import builtins
import heapq
import logging
import os
import selectors
import time as _time

from .runner import HarnessError

POLL = 0.1  # GeckoConstants.ASYNCIO_SLEEP_TIMEOUT_FOR_YIELD


class Deadlock(HarnessError):
    pass


class VClock:
    def __init__(self):
        self.t = 1000.0

    def now(self):
        self.t += 1e-6
        return self.t


class _VSelector:
    """wraps a real selector; select() advances virtual time instead of blocking"""

    def __init__(self, clock):
        self._real = selectors.DefaultSelector()
        self._clock = clock

    def select(self, timeout=None):
        if timeout is None:
            raise Deadlock("virtual loop has nothing to run and no timer armed")
        if timeout > 0:
            self._clock.t += timeout
        return self._real.select(0)

    def __getattr__(self, name):
        return getattr(self._real, name)


class FakeTransport(asyncio.DatagramTransport):
    def __init__(self, world, protocol, local_addr, kwargs):
        super().__init__()
        self.world = world
        self.protocol = protocol
        self.local_addr = local_addr
        self.kwargs = kwargs
        self.closed = False
        self.close_calls = 0
        self.opened_at = world.clock.t
        self.closed_at = None
        self.sent = []  # (t, data, addr)
        self.late_deliveries = 0
        self.owner_tag = world.current_owner_tag()
        self.handed_over = False  # create_datagram_endpoint has returned this transport to its caller

    def sendto(self, data, addr=None):
        if self.closed:
            return
        t = self.world.clock.t
        self.sent.append((t, bytes(data), addr))
        if self.world.send_error:
            # the interface is down: the OS refuses the send (ENETUNREACH); asyncio reports that to the protocol through
            # error_received() and keeps the socket open
            self.world.loop.call_soon(self.protocol.error_received, OSError(101, "Network is unreachable"))
        self.world.on_send(self, bytes(data), addr)

    def close(self):
        self.close_calls += 1
        if self.closed:
            return
        self.closed = True
        self.closed_at = self.world.clock.t
        self.world.loop.call_soon(self._lost)

    def _lost(self):
        try:
            self.protocol.connection_lost(None)
        except asyncio.InvalidStateError:
            pass

    def abort(self):
        self.close()

    def is_closing(self):
        return self.closed

    def get_extra_info(self, name, default=None):
        if name == "sockname":
            return self.local_addr
        return default

    def __repr__(self):
        return f"<FakeTransport {self.local_addr} closed={self.closed}>"


class VLoop(asyncio.SelectorEventLoop):
    def __init__(self, world):
        self.world = world
        self.clock = world.clock
        super().__init__(_VSelector(self.clock))
        self.jitter = []
        self._jix = 0
        self.jitter_total = 0.0
        self.steps = 0
        self.max_steps = 3_000_000
        self.step_hooks = {}  # step index -> callable

    def time(self):
        return self.clock.now()

    def set_jitter(self, tape):
        self.jitter = [max(0.0, float(x)) for x in tape]
        self._jix = 0

    def call_at(self, when, callback, *args, context=None):
        if self.jitter:
            j = self.jitter[self._jix % len(self.jitter)]
            self._jix += 1
            self.jitter_total += j
            when += j
        return super().call_at(when, callback, *args, context=context)

    def call_at_exact(self, when, callback, *args):
        """network / harness timers: not subject to the jitter tape"""
        return super().call_at(when, callback, *args)

    def _run_once(self):
        self.steps += 1
        if self.steps > self.max_steps:
            raise HarnessError(f"virtual loop exceeded {self.max_steps} iterations (runaway case)")
        hook = self.step_hooks.pop(self.steps, None)
        if hook is not None:
            hook()
        super()._run_once()

    async def create_datagram_endpoint(self, protocol_factory, local_addr=None, remote_addr=None, **kw):
        # mirrors BaseEventLoop.create_datagram_endpoint: the transport exists (and announces itself through
        # call_soon) before the coroutine returns it, and is closed again if the caller is cancelled while waiting
        protocol = protocol_factory()
        transport = self.world.new_transport(protocol, kw)
        waiter = self.create_future()
        self.call_soon(protocol.connection_made, transport)
        self.call_soon(lambda: waiter.done() or waiter.set_result(None))
        try:
            await waiter
        except BaseException:
            transport.close()
            raise
        transport.handed_over = True
        return transport, protocol


# ------------------------------------------------------------------ peers

_snap_cache = {}


def load_snapshot(path):
    from geckolib.utils.snapshot import GeckoSnapshot

    if path not in _snap_cache:
        snaps = GeckoSnapshot.parse_log_file(path)
        _snap_cache[path] = snaps
    return _snap_cache[path]


def default_snapshot_path():
    from .packs import snapshot_files

    for p in snapshot_files():
        if os.path.basename(p) == "default.snapshot":
            return p
    raise HarnessError("default.snapshot not found")


def quiet_simulator_module():
    import geckolib.utils.simulator as simmod

    simmod.print = lambda *a, **k: None


def make_simulator(snapshot=None, identifier=b"SPA01:02:03:04:05:06", name="Udp Test Spa"):
    """a GeckoSimulator that is never started: no thread, no socket"""
    from geckolib.utils.simulator import GeckoSimulator
    from geckolib.driver import GeckoHelloProtocolHandler

    quiet_simulator_module()
    root = logging.getLogger()
    before = list(root.handlers)
    level = root.level
    sim = GeckoSimulator()
    for h in list(root.handlers):
        if h not in before:
            root.removeHandler(h)
    root.setLevel(level)
    if snapshot is None:
        snapshot = load_snapshot(default_snapshot_path())[0]
    sim.set_snapshot(snapshot)
    if identifier != b"SPA01:02:03:04:05:06" or name != "Udp Test Spa":
        old = sim._hello_handler
        sim._hello_handler = GeckoHelloProtocolHandler.response(identifier, name, on_handled=sim._on_hello)
        hs = sim._socket._receive_handlers
        hs[hs.index(old)] = sim._hello_handler
    sim.vp_identifier = identifier
    sim.vp_name = name
    return sim


class SimPeer:
    """one simulated spa at an address of the virtual network"""

    SEND_PACING = 0.02  # the simulator's socket throttles to 50 datagrams/s

    def __init__(self, world, sim, addr=("10.0.0.50", 10022)):
        self.world = world
        self.sim = sim
        self.addr = addr
        self.received = []  # (t, data, from)
        self.sent = []
        self.reply_multiplicity = 1
        self.hello_latency = 0.0
        self.silent = False

    def receive(self, data, client_addr):
        self.received.append((self.world.clock.t, data, client_addr))
        if self.silent:
            return
        sock = self.sim._socket
        sock.dispatch_recevied_data(data, client_addr)
        out = list(sock._send_handlers)
        del sock._send_handlers[:]
        replies = []
        for handler, dest in out:
            try:
                b = handler.send_bytes
            except Exception:  # noqa
                continue
            replies.append((b, (dest[0], dest[1])))
        self.world.deliver_from_spa(self, replies, is_hello=data.startswith(b"<HELLO>"))

    def push(self, handlers_and_dest):
        """unsolicited traffic the simulator queued (e.g. STATP from do_set)"""
        sock = self.sim._socket
        out = list(sock._send_handlers)
        del sock._send_handlers[:]
        self.world.deliver_from_spa(self, [(h.send_bytes, (d[0], d[1])) for h, d in out])


# ------------------------------------------------------------------ world


class World:
    """owns the loop, the clock, the endpoints, the peers, the wire log and the fault state"""

    BASE_LATENCY = 0.003

    def __init__(self, jitter=None):
        self.clock = VClock()
        self.loop = VLoop(self)
        if jitter:
            self.loop.set_jitter(jitter)
        self.transports = []
        self.peers = []
        self.wire = []  # (t, direction 'c2s'/'s2c', src, dst, data, fate)
        self._next_port = 40000
        self._last_delivery = {}
        # fault state
        self.blackout = False
        self.send_error = False   # with blackout: sends fail with an OS error instead of vanishing silently
        self.c2s_tape = []  # per-datagram actions consumed in order; [] = deliver
        self.s2c_tape = []
        self.c2s_cycle = None  # pattern that refills the tape when it runs out (persistent fault)
        self.s2c_cycle = None
        self.c2s_filter = None  # optional callable(data)->action
        self.s2c_filter = None
        self._owner_stack = ["?"]
        self._held = {}
        self.delivered = []  # (t, client endpoint, data) in the order handed to datagram_received
        self.in_flight = 0  # datagrams scheduled but not yet delivered
        self.expect_leftover = False  # set by a check that has already reported an unkillable task as a violation

    # -- ownership tags (which phase opened an endpoint)
    def current_owner_tag(self):
        return self._owner_stack[-1]

    def new_transport(self, protocol, kw):
        addr = ("10.0.0.2", self._next_port)
        self._next_port += 1
        t = FakeTransport(self, protocol, addr, kw)
        self.transports.append(t)
        return t

    def add_peer(self, sim, addr=None):
        if addr is None:
            addr = (f"10.0.0.{50 + len(self.peers)}", 10022)
        p = SimPeer(self, sim, addr)
        self.peers.append(p)
        return p

    # -- fault decisions
    def _action(self, direction, data):
        if self.blackout:
            return "drop"
        flt = self.c2s_filter if direction == "c2s" else self.s2c_filter
        if flt is not None:
            a = flt(data)
            if a is not None:
                return a
        tape = self.c2s_tape if direction == "c2s" else self.s2c_tape
        if not tape:
            cyc = self.c2s_cycle if direction == "c2s" else self.s2c_cycle
            if cyc:
                tape.extend(cyc)
        if tape:
            return tape.pop(0)
        return "deliver"

    def _schedule(self, key, when, fn, *args):
        last = self._last_delivery.get(key, 0.0)
        when = max(when, last + 2e-6)
        self._last_delivery[key] = when
        self._fly(when, fn, *args)
        return when

    def _fly(self, when, fn, *args):
        self.in_flight += 1

        def land():
            self.in_flight -= 1
            fn(*args)

        self.loop.call_at_exact(when, land)

    # -- client -> spa
    def on_send(self, transport, data, addr):
        now = self.clock.t
        targets = []
        if addr is None:
            fate = "no-destination"
        else:
            ip = addr[0]
            if ip in ("<broadcast>", "255.255.255.255"):
                targets = list(self.peers)
            else:
                # (a peer may also be reachable under other names: a host name the resolver maps to it, a forwarded address)
                targets = [p for p in self.peers if (p.addr[0] == ip or ip in getattr(p, "aliases", ())) and p.addr[1] == addr[1]]
        act = self._action("c2s", data)
        self.wire.append((now, "c2s", transport.local_addr, addr, data, act if targets else "no-peer"))
        if not targets or act == "drop":
            return
        delay = self.BASE_LATENCY
        copies = 1
        if isinstance(act, (list, tuple)) and act[0] == "delay":
            delay += float(act[1])
        elif act == "dup":
            copies = 2
        for p in targets:
            for c in range(copies):
                self._schedule(("c2s", p.addr), now + delay + c * 0.001, p.receive, data, transport.local_addr)

    # -- spa -> client
    def deliver_from_spa(self, peer, replies, is_hello=False):
        now = self.clock.t
        t = now + self.BASE_LATENCY + (peer.hello_latency if is_hello else 0.0)
        mult = peer.reply_multiplicity if is_hello else 1
        seq = []
        for data, dest in replies:
            for _ in range(mult):
                seq.append((data, dest))
        i = 0
        while i < len(seq):
            data, dest = seq[i]
            act = self._action("s2c", data)
            fate = act
            when = t + i * SimPeer.SEND_PACING
            if act == "drop":
                self.wire.append((now, "s2c", peer.addr, dest, data, "drop"))
            elif act == "dup":
                self.wire.append((now, "s2c", peer.addr, dest, data, "dup"))
                self._schedule(("s2c", dest), when, self._deliver, peer, data, dest)
                self._schedule(("s2c", dest), when + 0.001, self._deliver, peer, data, dest)
            elif isinstance(act, (list, tuple)) and act[0] == "delay":
                self.wire.append((now, "s2c", peer.addr, dest, data, "delay"))
                # a delayed datagram leaves the FIFO: it may overtake / be overtaken
                self._fly(when + float(act[1]), self._deliver, peer, data, dest)
            elif isinstance(act, (list, tuple)) and act[0] == "replace":
                # the datagram arrives damaged (other content in the same frame)
                self.wire.append((now, "s2c", peer.addr, dest, act[1], "replace"))
                self._schedule(("s2c", dest), when, self._deliver, peer, act[1], dest)
            elif act == "swap" and i + 1 < len(seq):
                self.wire.append((now, "s2c", peer.addr, dest, data, "swap"))
                nxt = seq[i + 1]
                self.wire.append((now, "s2c", peer.addr, nxt[1], nxt[0], "swapped-forward"))
                self._schedule(("s2c", dest), when, self._deliver, peer, nxt[0], nxt[1])
                self._schedule(("s2c", dest), when + SimPeer.SEND_PACING, self._deliver, peer, data, dest)
                i += 2
                continue
            else:
                self.wire.append((now, "s2c", peer.addr, dest, data, "deliver"))
                self._schedule(("s2c", dest), when, self._deliver, peer, data, dest)
            i += 1

    def _deliver(self, peer, data, dest):
        for tr in self.transports:
            if tr.local_addr == dest:
                if tr.closed:
                    tr.late_deliveries += 1
                    return
                peer.sent.append((self.clock.t, data, dest))
                self.delivered.append((self.clock.t, tr.local_addr, data))
                tr.protocol.datagram_received(data, peer.addr)
                return

    def inject(self, transport, data, from_addr, delay=0.0):
        """harness-made datagram towards a client endpoint (FIFO with the rest of the traffic)"""
        def go():
            if not transport.closed:
                self.delivered.append((self.clock.t, transport.local_addr, data))
                transport.protocol.datagram_received(data, from_addr)
            else:
                transport.late_deliveries += 1
        self._schedule(("s2c", transport.local_addr), self.clock.t + self.BASE_LATENCY + delay, go)

    # -- running
    def run(self, coro_fn, *, hard_limit_steps=5_000_000):
        """run `await coro_fn(world)` to completion inside the virtual loop"""
        from geckolib import config as gconfig

        saved_monotonic = _time.monotonic
        result = {}

        async def main():
            try:
                result["value"] = await coro_fn(self)
            finally:
                # no task may outlive a case
                me = asyncio.current_task()
                for _ in range(50):
                    others = [t for t in asyncio.all_tasks() if t is not me and not t.done()]
                    if not others:
                        break
                    for t in others:
                        t.cancel()
                    # bounded (virtual seconds): a task that swallows its cancellation must not hang the harness
                    await asyncio.wait(others, timeout=5.0)
                result["leftover"] = [t.get_name() for t in asyncio.all_tasks() if t is not me and not t.done()]

        _time.monotonic = self.clock.now
        asyncio.set_event_loop(self.loop)
        try:
            self.loop.run_until_complete(main())
        finally:
            _time.monotonic = saved_monotonic
            try:
                self.loop.close()
            finally:
                asyncio.set_event_loop(None)
            reset_globals()
        if result.get("leftover") and not self.expect_leftover:
            raise HarnessError(f"tasks outlived the case: {result['leftover']}")
        return result.get("value")

    async def sleep(self, d):
        """harness sleep: exact virtual time, not subject to the jitter tape"""
        fut = self.loop.create_future()
        self.loop.call_at_exact(self.clock.t + d, lambda: (not fut.done()) and fut.set_result(None))
        await fut

    async def settle(self, d=0.5):
        await self.sleep(d)

    async def drain(self, queues=(), quiet=1.0, limit=600.0):
        """wait until nothing is in flight and the given receive queues have been empty for
        `quiet` virtual seconds (unclaimed datagrams take the catch-all consumer >=0.2 s each)"""
        t_end = self.clock.t + limit
        calm = 0.0
        while self.clock.t < t_end:
            busy = self.in_flight > 0 or any(q.qsize() > 0 for q in queues)
            calm = 0.0 if busy else calm + 0.1
            if calm >= quiet:
                return True
            await self.sleep(0.1)
        return False


def reset_globals():
    """bring the library's module-level state back to its import-time value"""
    from geckolib import config as gconfig

    idle = gconfig._GeckoIdleConfig()
    for member in dir(gconfig._GeckoConfig):
        if member.isupper():
            setattr(gconfig.GeckoConfig, member, getattr(idle, member))
    gconfig.ConfigChange = None


# ------------------------------------------------------------------ a recording spa manager


def make_spaman_class():
    from geckolib import GeckoAsyncSpaMan

    class RecMan(GeckoAsyncSpaMan):
        def __init__(self, world, **kw):
            super().__init__("vp-client-uuid", **kw)
            self.world = world
            self.events = []  # (t, event, state, facade_present, sensor_text, kwargs-keys)
            self.suspend = []  # durations consumed one per delivered event (client handler suspends)
            self.on_event = None

        async def handle_event(self, event, **kwargs):
            ss = self.status_sensor
            self.events.append((self.world.clock.t, event, self.spa_state, self.facade is not None,
                                ss.state if ss is not None else None,
                                self._spa is not None, self._spa_descriptors is not None))
            if self.on_event is not None:
                self.on_event(event, kwargs)
            if self.suspend:
                d = self.suspend.pop(0)
                if d > 0:
                    await asyncio.sleep(d)

    return RecMan
