"""E1: enumeration of the shipped pack tables + a reference item decoder/encoder.

The reference layer is independent of geckolib/driver/accessor.py: every table module is
executed a second time with *recording* stand-ins for the six accessor classes, so the raw
constructor arguments written in the generated table (tag, pos, bitpos, items, size, maxitems,
rw) are captured, and decoding/encoding is re-implemented here from those arguments only.
"""
from __future__ import annotations

import glob
import importlib
import importlib.util
import os
import re
import sys
from fractions import Fraction

from .runner import REPO_SRC

PACKS_DIR = os.path.join(REPO_SRC, "geckolib", "driver", "packs")
BLOCK = 1024


# ----------------------------------------------------------------------------- reference item


class RefItem:
    __slots__ = ("kind", "tag", "pos", "bitpos", "labels", "size", "maxitems", "rw", "width", "mask")

    def __init__(self, kind, tag, pos, bitpos=None, items=None, size=None, maxitems=None, rw=None):
        self.kind = kind  # Byte Word Time Bool Enum Temp
        self.tag = tag
        self.pos = pos
        self.bitpos = bitpos
        if isinstance(items, str):
            items = items.split("|")
        self.labels = list(items) if items is not None else None
        self.size = size
        self.maxitems = int(maxitems) if maxitems is not None else None
        self.rw = rw
        # field width in bytes
        if kind in ("Word", "Time", "Temp"):
            self.width = 2
        elif size is not None:
            self.width = int(size)
        else:
            self.width = 1
        # bit-field mask (before shifting); None = whole field
        if bitpos is None:
            self.mask = None
        else:
            m = 1
            if self.maxitems is not None:
                if self.maxitems > 8:
                    m = 15
                elif self.maxitems > 4:
                    m = 7
                elif self.maxitems > 2:
                    m = 3
            self.mask = m

    # -- geometry
    @property
    def field_mask(self) -> int:
        """mask of the bits this item owns inside its width-byte big-endian field"""
        if self.mask is None:
            return (1 << (8 * self.width)) - 1
        return (self.mask << self.bitpos) & ((1 << (8 * self.width)) - 1)

    @property
    def capacity(self) -> int:
        """number of distinct raw values the field can hold"""
        if self.mask is None:
            return 1 << (8 * self.width)
        return self.mask + 1

    def bytes_range(self):
        return range(self.pos, self.pos + self.width)

    def shape(self):
        return (self.kind, self.width, self.bitpos, self.mask, len(self.labels) if self.labels else 0)

    # -- decode
    def field(self, block: bytes) -> int:
        b = block[self.pos : self.pos + self.width]
        if len(b) != self.width:
            raise IndexError(f"{self.tag}: bytes {self.pos}+{self.width} outside block")
        return int.from_bytes(b, "big")

    def raw(self, block: bytes) -> int:
        v = self.field(block)
        if self.mask is not None:
            v = (v >> self.bitpos) & self.mask
        return v

    def decode(self, block: bytes, unit: str | None = None):
        """decoded value as the library documents it (Temp: needs the unit label)"""
        r = self.raw(block)
        if self.kind == "Bool":
            return r == 1
        if self.kind == "Enum":
            return self.labels[r] if r < len(self.labels) else "Unknown"
        if self.kind == "Time":
            return f"{r >> 8:02}:{r & 255:02}"
        if self.kind == "Temp":
            return temp_value(r, unit)
        return r

    def stored(self, block: bytes):
        """the comparison key for 'did the item change' (Temp: stored reading = raw word)"""
        r = self.raw(block)
        if self.kind == "Bool":
            return r == 1
        if self.kind == "Enum":
            return self.labels[r] if r < len(self.labels) else "Unknown"
        return r

    # -- encode: the (pos, width, word) a correct client must send for raw value r
    def encode_raw(self, block: bytes, r: int):
        cur = self.field(block)
        if self.mask is None:
            word = r & ((1 << (8 * self.width)) - 1)
        else:
            word = (cur & ~(self.mask << self.bitpos)) | ((r & self.mask) << self.bitpos)
            word &= (1 << (8 * self.width)) - 1
        return (self.pos, self.width, word)

    def to_json(self):
        return {
            "kind": self.kind, "tag": self.tag, "pos": self.pos, "bitpos": self.bitpos,
            "labels": self.labels, "size": self.size, "maxitems": self.maxitems, "rw": self.rw,
            "width": self.width, "mask": self.mask,
        }


def temp_value(raw: int, unit: str):
    """Exact temperature of a raw word: raw/18 C or (raw+320)/10 F."""
    if unit == "C":
        return Fraction(raw, 18)
    return Fraction(raw + 320, 10)


def apply_write(block: bytes, pos: int, width: int, word: int) -> bytes:
    """What a spa does with a set-value command: big-endian 1/2-byte store at pos."""
    return block[:pos] + int(word).to_bytes(width, "big") + block[pos + width :]


# ----------------------------------------------------------------------------- recording loader


def _recorders():
    def mk(kind, sig):
        def ctor(struct_, *args):
            kw = dict(zip(sig, args))
            if len(args) != len(sig):
                raise TypeError(f"{kind} accessor called with {len(args)} args")
            return RefItem(kind, kw["tag"], kw["pos"], kw.get("bitpos"), kw.get("items"),
                           kw.get("size"), kw.get("maxitems"), kw.get("rw"))
        return ctor

    return {
        "GeckoByteStructAccessor": mk("Byte", ("tag", "pos", "rw")),
        "GeckoWordStructAccessor": mk("Word", ("tag", "pos", "rw")),
        "GeckoTimeStructAccessor": mk("Time", ("tag", "pos", "rw")),
        "GeckoTempStructAccessor": mk("Temp", ("tag", "pos", "rw")),
        "GeckoBoolStructAccessor": mk("Bool", ("tag", "pos", "bitpos", "rw")),
        "GeckoEnumStructAccessor": mk("Enum", ("tag", "pos", "bitpos", "items", "size", "maxitems", "rw")),
    }


_MODULE_RE = re.compile(r"^(?P<plat>.+?)-(?P<kind>cfg|log)-(?P<ver>\d+)$")


def module_names():
    names = []
    for p in sorted(glob.glob(os.path.join(PACKS_DIR, "*.py"))):
        n = os.path.basename(p)[:-3]
        if n != "__init__":
            names.append(n)
    return names


def classify(name):
    m = _MODULE_RE.match(name)
    if m:
        return m.group("kind"), m.group("plat"), int(m.group("ver"))
    return "pack", name, None


_ref_cache = {}


def ref_module(name):
    """Execute the table module against the recording accessor classes and return the class
    instance (GeckoPack / GeckoConfigStruct / GeckoLogStruct) plus its reference items."""
    if name in _ref_cache:
        return _ref_cache[name]
    import geckolib.driver.packs as pkg

    rec = _recorders()
    saved = {k: getattr(pkg, k) for k in rec}
    path = os.path.join(PACKS_DIR, name + ".py")
    modname = f"geckolib.driver.packs._vp_ref_{name.replace('-', '_')}"
    try:
        for k, v in rec.items():
            setattr(pkg, k, v)
        spec = importlib.util.spec_from_file_location(modname, path)
        mod = importlib.util.module_from_spec(spec)
        spec.loader.exec_module(mod)
    finally:
        for k, v in saved.items():
            setattr(pkg, k, v)
    kind, plat, ver = classify(name)
    cls = {"pack": "GeckoPack", "cfg": "GeckoConfigStruct", "log": "GeckoLogStruct"}[kind]
    inst = getattr(mod, cls)(None)
    items = inst.accessors if kind != "pack" else {}
    _ref_cache[name] = (inst, items)
    return _ref_cache[name]


def real_module(name):
    return importlib.import_module(f"geckolib.driver.packs.{name}")


def platforms():
    """{platform: {"cfg":[versions], "log":[versions]}} for platforms that have a pack module"""
    out = {}
    names = module_names()
    for n in names:
        kind, plat, ver = classify(n)
        if kind == "pack":
            out.setdefault(plat, {"cfg": [], "log": []})
    for n in names:
        kind, plat, ver = classify(n)
        if kind != "pack":
            out.setdefault(plat, {"cfg": [], "log": []})[kind].append(ver)
    for v in out.values():
        v["cfg"].sort()
        v["log"].sort()
    return out


_combo_cache = None


def combos():
    """all (platform, cfg version, log version) combinations present in the shipped tables"""
    global _combo_cache
    if _combo_cache is None:
        c = []
        for plat, v in sorted(platforms().items()):
            for cv in v["cfg"]:
                for lv in v["log"]:
                    c.append((plat, cv, lv))
        _combo_cache = c
    return _combo_cache


class Pair:
    """A cfg+log pair with reference items and convenience lookups."""

    def __init__(self, plat, cv, lv):
        self.plat, self.cv, self.lv = plat, cv, lv
        self.cfg_name = f"{plat}-cfg-{cv}"
        self.log_name = f"{plat}-log-{lv}"
        self.cfg_inst, cfg_items = ref_module(self.cfg_name)
        self.log_inst, log_items = ref_module(self.log_name)
        self.items = dict(cfg_items, **log_items)  # same override order as build_accessors

    def unit(self, block):
        it = self.items.get("TempUnits")
        return it.decode(block) if it is not None else None

    def decode(self, tag, block):
        it = self.items[tag]
        return it.decode(block, self.unit(block) if it.kind == "Temp" else None)


_pair_cache = {}


def pair(plat, cv, lv) -> Pair:
    k = (plat, cv, lv)
    if k not in _pair_cache:
        _pair_cache[k] = Pair(plat, cv, lv)
    return _pair_cache[k]


def build_real(struct, plat, cv, lv):
    """Instantiate the real table classes on a real structure object (what _connect does)."""
    pack = real_module(plat).GeckoPack(struct)
    cfg = real_module(f"{plat}-cfg-{cv}").GeckoConfigStruct(struct)
    log = real_module(f"{plat}-log-{lv}").GeckoLogStruct(struct)
    struct.build_accessors(cfg, log)
    return pack, cfg, log


def snapshot_files():
    d = os.path.join(os.path.dirname(REPO_SRC), "tests", "snapshots")
    return sorted(glob.glob(os.path.join(d, "*.snapshot")))
