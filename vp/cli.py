"""./check <ID> quick|thorough   |   ./check <ID> --replay <file>"""
import importlib
import logging
import os
import sys
import traceback


def main(argv):
    if len(argv) < 2:
        print(__doc__, file=sys.stderr)
        return 2
    prop = argv[0].upper()
    from . import runner

    src = os.path.join(runner.REPO, "src")
    if sys.path[0] != src:
        sys.path.insert(0, src)
    logging.disable(logging.CRITICAL)
    try:
        import geckolib  # noqa

        if not os.path.abspath(geckolib.__file__).startswith(os.path.abspath(src)):
            print(f"HARNESS ERROR: geckolib imported from {geckolib.__file__}", file=sys.stderr)
            return 2
    except Exception:  # noqa
        # The tree under test does not import: that is not a property verdict.
        print("HARNESS ERROR: cannot import geckolib from " + src, file=sys.stderr)
        traceback.print_exc()
        return 2
    try:
        mod = importlib.import_module(f"vp.checks.{prop.lower()}")
    except Exception:  # noqa
        print(f"HARNESS ERROR: cannot load check {prop}", file=sys.stderr)
        traceback.print_exc()
        return 2
    try:
        if argv[1] == "--replay":
            return runner.run_replay(mod, argv[2])
        tier = argv[1]
        if tier not in ("quick", "thorough"):
            print(__doc__, file=sys.stderr)
            return 2
        return runner.run_check(mod, tier)
    except runner.HarnessError as exc:
        print(f"HARNESS ERROR: {exc}", file=sys.stderr)
        return 2
    except Exception:  # noqa
        print("HARNESS ERROR:", file=sys.stderr)
        traceback.print_exc()
        return 2


if __name__ == "__main__":
    sys.exit(main(sys.argv[1:]))
