"""Full-stack GeckoAsyncSpaMan scenarios in the virtual world (C08 layer B, C09, C10).

A scenario = fault phases on the virtual network + user actions at virtual times or loop steps
+ suspension durations of the client's event handler + jitter tape.  Everything the manager
tells its client, every `_handle_event` entry (with the state before), every endpoint and task
is recorded for the per-property oracles.
"""
from __future__ import annotations

import asyncio

from . import clients, packs, vworld
from .runner import HarnessError

SPA_ID_STR = "SPA01:02:03:04:05:06"


def make_man_class():
    from geckolib import GeckoAsyncSpaMan

    class RecMan(GeckoAsyncSpaMan):
        def __init__(self, world, **kw):
            super().__init__("vp-client-uuid", **kw)
            self.world = world
            self.delivered = []  # dict per handle_event call
            self.pre = []        # dict per _handle_event entry
            self.suspend = []
            self._depth = {}
            self.resets = []     # (t_start, t_end, state/facade/spa/descriptors at return)

        async def _handle_event(self, event, **kwargs):
            task = asyncio.current_task()
            rec = {"t": self.world.clock.t, "event": event, "before": self._spa_state,
                   "facade_before": self._facade is not None, "task": task.get_name() if task else "?",
                   "ix": len(self.pre), "after": None}
            self.pre.append(rec)
            await super()._handle_event(event, **kwargs)

        async def handle_event(self, event, **kwargs):
            ss = self._status_sensor
            task = asyncio.current_task()
            self.delivered.append({
                "t": self.world.clock.t, "event": event, "state": self._spa_state,
                "facade": self._facade is not None, "spa": self._spa is not None,
                "spa_connected": bool(self._spa is not None and self._spa.is_connected),
                "descriptors": self._spa_descriptors is not None,
                "text": ss.state if ss is not None else None,
                "task": task.get_name() if task else "?", "pre_ix": len(self.pre) - 1})
            if self.suspend:
                d = self.suspend.pop(0)
                if d > 0:
                    await asyncio.sleep(d)

        async def async_reset(self):
            t0 = self.world.clock.t
            await super().async_reset()
            self.resets.append({"t0": t0, "t1": self.world.clock.t, "state": self._spa_state,
                                "facade": self._facade is not None, "spa": self._spa is not None,
                                "descriptors": self._spa_descriptors is not None})

    return RecMan


class Scenario:
    """drives one manager life; `script` is a list of [time, action, arg...] sorted by time:
       blackout on/off, lossy pattern, rferr on/off, reset, setinfo, healthy"""

    def __init__(self, jitter=None, snapshot=None, suspend=None):
        self.W = vworld.World(jitter=jitter or None)
        self.sim = vworld.make_simulator(snapshot)
        self.peer = self.W.add_peer(self.sim)
        self.suspend = list(suspend or [])
        self.man = None
        self.samples = []     # (t, state, pump_alive)
        self.observer_calls = []
        self.t0 = None

    def apply(self, action, arg=None):
        W = self.W
        if action == "blackout":
            W.blackout = bool(arg)
        elif action == "rferr":
            self.sim._do_rferr = bool(arg)
        elif action == "lossy":
            # arg: pattern of 0/1 (1 = drop) applied cyclically to every datagram, both ways
            pat = list(arg or [])
            W.c2s_cycle = ["drop" if x else "deliver" for x in pat] or None
            W.s2c_cycle = ["drop" if x else "deliver" for x in pat[::-1]] or None
            W.c2s_tape, W.s2c_tape = [], []
        elif action == "healthy":
            W.blackout = False
            self.sim._do_rferr = False
            W.c2s_cycle = W.s2c_cycle = None
            W.c2s_tape, W.s2c_tape = [], []
        else:
            raise HarnessError(f"unknown action {action}")

    def pump_task(self):
        for t in self.man._tasks:
            if t.get_name() == "SPAMAN:Sequence Pump":
                return t
        return None

    def sample(self):
        p = self.pump_task()
        self.samples.append((self.W.clock.t, self.man.spa_state, p is not None and not p.done()))
