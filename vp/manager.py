"""Full-stack GeckoAsyncSpaMan scenarios in the virtual world (C08 layer B, C09, C10).

A scenario = fault phases on the virtual network + user actions at virtual times or loop steps
+ suspension durations of the client's event handler + jitter tape.  Everything the manager
tells its client, every `_handle_event` entry (with the state before), every endpoint and task
is recorded for the per-property oracles.
"""
from __future__ import annotations

import asyncio

from . import clients, packs, vworld
from .runner import HarnessError

SPA_ID_STR = "SPA01:02:03:04:05:06"


def make_man_class():
    from geckolib import GeckoAsyncSpaMan

    class RecMan(GeckoAsyncSpaMan):
        def __init__(self, world, **kw):
            super().__init__("vp-client-uuid", **kw)
            self.world = world
            self.delivered = []  # dict per handle_event call
            self.pre = []        # dict per _handle_event entry
            self.suspend = []
            self.suspend_map = {}  # event name -> seconds the client's handler suspends on every such event
            self.raise_map = {}    # event name -> how many times the client's handler raises when it is told that event
            self._stacks = {}
            self.resets = []     # (t_start, t_end, state/facade/spa/descriptors at return)

        async def _handle_event(self, event, **kwargs):
            task = asyncio.current_task()
            rec = {"t": self.world.clock.t, "event": event, "before": self._spa_state,
                   "facade_before": self._facade is not None, "task": task.get_name() if task else "?",
                   "ix": len(self.pre), "delivered_state": None, "delivered_at_ix": None,
                   "parent": None}
            stack = self._stacks.setdefault(id(task), [])
            if stack:
                rec["parent"] = stack[-1]["ix"]
            self.pre.append(rec)
            stack.append(rec)
            try:
                await super()._handle_event(event, **kwargs)
            finally:
                stack.pop()

        async def handle_event(self, event, **kwargs):
            ss = self._status_sensor
            task = asyncio.current_task()
            stack = self._stacks.get(id(task), [])
            if stack and stack[-1]["delivered_state"] is None:
                stack[-1]["delivered_state"] = self._spa_state
                stack[-1]["delivered_at_ix"] = len(self.pre)
            self.delivered.append({
                "t": self.world.clock.t, "event": event, "state": self._spa_state,
                "facade": self._facade is not None, "spa": self._spa is not None,
                "spa_connected": bool(self._spa is not None and self._spa.is_connected),
                "descriptors": self._spa_descriptors is not None,
                "block_blank": bool(self._spa is not None and self._spa.struct.status_block == bytes(1024)),
                "text": ss.state if ss is not None else None,
                "task": task.get_name() if task else "?", "pre_ix": stack[-1]["ix"] if stack else None})
            if self.raise_map.get(event.name, 0) > 0:
                self.raise_map[event.name] -= 1
                raise RuntimeError(f"client handler fails on {event.name}")
            d = self.suspend_map.get(event.name, 0.0)
            if not d and self.suspend:
                d = self.suspend.pop(0)
            if d > 0:
                await asyncio.sleep(d)

        async def async_reset(self):
            t0 = self.world.clock.t
            task = asyncio.current_task()
            # marker: a reset changes the state without raising an event of its own
            self.pre.append({"t": t0, "event": None, "before": self._spa_state, "facade_before": self._facade is not None,
                             "task": task.get_name() if task else "?", "ix": len(self.pre), "delivered_state": None,
                             "delivered_at_ix": None, "parent": None})
            completed = False
            transport = getattr(self._spa, "_transport", None)   # the endpoint of the connection this reset abandons
            conn_tasks = [t for t in self._tasks if not t.done() and not t.get_name().startswith(("SPAMAN:", "ASYNC:"))] if self._spa is not None else []
            try:
                await super().async_reset()
                completed = True
            finally:
                self.pre.append({"t": self.world.clock.t, "event": None, "before": self._spa_state,
                                 "facade_before": self._facade is not None, "task": (task.get_name() if task else "?") + ":reset-end",
                                 "ix": len(self.pre), "delivered_state": None, "delivered_at_ix": None, "parent": None})
                rec_ = {"alive_after": None}
                if completed and conn_tasks:
                    # every task of the abandoned connection - also the one that ran this reset - ends promptly
                    def look(rec_=rec_, conn_tasks=conn_tasks):
                        rec_["alive_after"] = sorted(t.get_name() for t in conn_tasks if not t.done())
                    self.world.loop.call_at_exact(self.world.clock.t + 0.35, look)
                self.resets.append({"t0": t0, "t1": self.world.clock.t, "state": self._spa_state, "late": rec_,
                                    "facade": self._facade is not None, "spa": self._spa is not None,
                                    "descriptors": self._spa_descriptors is not None, "completed": completed,
                                    "task": task.get_name() if task else "?", "transport": transport})

    return RecMan


class Scenario:
    """drives one manager life; `script` is a list of [time, action, arg...] sorted by time:
       blackout on/off, lossy pattern, rferr on/off, reset, setinfo, healthy"""

    def __init__(self, jitter=None, snapshot=None, suspend=None):
        self.W = vworld.World(jitter=jitter or None)
        self.sim = vworld.make_simulator(snapshot)
        self.peer = self.W.add_peer(self.sim)
        self.suspend = list(suspend or [])
        self.man = None
        self.samples = []     # (t, state, pump_alive)
        self.observer_calls = []
        self.t0 = None

    def apply(self, action, arg=None):
        W = self.W
        if action == "blackout":
            W.blackout = bool(arg)
        elif action == "neterr":
            W.blackout = W.send_error = bool(arg)
        elif action == "rferr":
            self.sim._do_rferr = bool(arg)
        elif action == "slowhs":
            # pings never get through; of every handshake / query verb only each (k+1)-th request does (the handshake creeps along)
            k = max(1, int(arg or 8))
            counts = {}

            def flt(data):
                i = data.find(b"<DATAS>")
                verb = bytes(data[i + 7:i + 12]) if i >= 0 else b""
                if verb == b"APING":
                    return "drop"
                if verb in (b"AVERS", b"CURCH", b"SFILE", b"STATU"):
                    counts[verb] = counts.get(verb, 0) + 1
                    return None if counts[verb] % (k + 1) == 0 else "drop"
                return None
            W.c2s_filter = flt
        elif action == "nostatu":
            # everything gets through except the status-block requests (the handshake's last step / the periodic refresh)
            W.c2s_filter = (lambda data: "drop" if b"<DATAS>STATU" in data else None)
        elif action == "noping":
            # pings never get through, everything else suffers the cyclic loss pattern `arg`
            W.c2s_filter = (lambda data: "drop" if b"<DATAS>APING" in data else None)
            self.apply("lossy", arg)
        elif action == "lossy":
            # arg: pattern of 0/1 (1 = drop) applied cyclically to every datagram, both ways
            pat = list(arg or [])
            W.c2s_cycle = ["drop" if x else "deliver" for x in pat] or None
            W.s2c_cycle = ["drop" if x else "deliver" for x in pat[::-1]] or None
            W.c2s_tape, W.s2c_tape = [], []
        elif action == "healthy":
            W.blackout = W.send_error = False
            W.c2s_filter = None
            self.sim._do_rferr = False
            W.c2s_cycle = W.s2c_cycle = None
            W.c2s_tape, W.s2c_tape = [], []
        else:
            raise HarnessError(f"unknown action {action}")

    def pump_task(self):
        for t in self.man._tasks:
            if t.get_name() == "SPAMAN:Sequence Pump":
                return t
        return None

    def sample(self):
        p = self.pump_task()
        self.samples.append((self.W.clock.t, self.man.spa_state, p is not None and not p.done()))


# ------------------------------------------------------------------ shared scenario runner


def run_scenario(case, *, recover_bound, mirror_wait=0.0, detect_bound=None, on_sample=None):
    """phases + user actions + final healthy period; returns a record for the oracles"""
    from geckolib import GeckoSpaState
    from .runner import InvalidCase

    jitter = [min(float(j), 0.05) for j in case.get("jitter", [])]
    sc = Scenario(jitter=jitter, suspend=case.get("suspend"))
    W, sim, peer = sc.W, sc.sim, sc.peer
    Man = make_man_class()
    rec = {"sc": sc, "overlap": False, "problems": [], "ok_at": None, "mirror": None, "detect_fail": None, "escapes": []}

    async def main(W):
        async with Man(W, spa_identifier=SPA_ID_STR, spa_address=peer.addr[0], spa_name="Spa") as man:
            sc.man = man
            rec["man"] = man
            man.suspend = list(case.get("suspend", []))
            man.suspend_map = dict(case.get("suspend_map", {}))
            if case.get("mode") == "active":
                # the process-wide timing table was left on "active" by whatever ran before (it survives reconnects)
                from geckolib.config import set_config_mode
                await asyncio.sleep(0)
                set_config_mode(True)
            t0 = W.clock.t
            rec["t0"] = t0
            actions = [(float(t), a) for t, a in case.get("actions", [])]
            blackout_since = None
            busy = (GeckoSpaState.LOCATING_SPAS, GeckoSpaState.CONNECTING, GeckoSpaState.LOCATED_SPAS)

            nf_since = None

            async def tick():
                nonlocal blackout_since, nf_since
                sc.sample()
                # Known dead end (known_findings.json, C09): ERROR_SPA_NOT_FOUND is never left.  So that the search goes on behind it,
                # the harness does what a user would: once the state has persisted for 25 s on a fault-free network (two discovery
                # runs would have found the spa) it presses "reconnect"; every such escape is reported as that known finding.
                faultless = not (W.blackout or sim._do_rferr or W.c2s_cycle or W.s2c_cycle or W.c2s_filter)
                if man.spa_state == GeckoSpaState.ERROR_SPA_NOT_FOUND and faultless:
                    if nf_since is None:
                        nf_since = W.clock.t
                    elif W.clock.t - nf_since >= 25.0:
                        rec["escapes"].append(W.clock.t - t0)
                        nf_since = None
                        await man.async_reset()
                else:
                    nf_since = None
                if on_sample is not None:
                    on_sample(sc, man)
                now = W.clock.t
                while actions and actions[0][0] <= now - t0:
                    _, a = actions.pop(0)
                    if man.spa_state in busy:
                        rec["overlap"] = True
                    if a == "reset":
                        await man.async_reset()
                    elif a == "setinfo":
                        await man.async_set_spa_info(peer.addr[0], SPA_ID_STR, "Spa")
                    elif a == "socklost":
                        # the event loop reports the connection's socket as lost (fatal OS error on the endpoint)
                        spa_ = man._spa
                        tr_ = getattr(spa_, "_transport", None)
                        if tr_ is not None and not tr_.closed:
                            tr_.closed = True
                            tr_.closed_at = W.clock.t
                            tr_.protocol.connection_lost(OSError(100, "Network is down"))
                            rec["socklost"] = rec.get("socklost", 0) + 1
                    else:
                        raise InvalidCase(a)
                if detect_bound is not None:
                    if W.blackout and man.spa_state == GeckoSpaState.CONNECTED:
                        if blackout_since is None:
                            blackout_since = now
                        elif now - blackout_since > detect_bound and rec["detect_fail"] is None:
                            rec["detect_fail"] = now - blackout_since
                    else:
                        blackout_since = None

            rec["clear"] = []   # [t_start, t_end] intervals in which the network was fault-free
            for kind, dur, arg in case["phases"]:
                if kind not in ("healthy", "blackout", "rferr", "lossy", "neterr", "noping", "slowhs", "nostatu"):
                    raise InvalidCase(kind)
                if kind != "healthy" and man.spa_state in busy + (GeckoSpaState.IDLE,):
                    rec["overlap"] = True
                sc.apply("healthy")
                if kind != "healthy":
                    sc.apply(kind, True if arg is None else arg)
                    b = bytearray(sim.structure.status_block)
                    b[300] = (b[300] + 1 + case.get("poke", 0)) & 0xFF
                    sim.structure.set_status_block(bytes(b))
                t_end = W.clock.t + float(dur)
                if kind == "healthy":
                    rec["clear"].append([W.clock.t, t_end])
                while W.clock.t < t_end:
                    await W.sleep(min(0.25, max(0.01, t_end - W.clock.t)))
                    await tick()
            sc.apply("healthy")
            t_h = W.clock.t
            rec["t_h"] = t_h
            rec["clear"].append([t_h, float("inf")])
            # From here on the network is healthy.  Faults that happened before may still surface for a while (a request started in
            # the outage exhausts its retries, the ping loop notices the gap): the manager may therefore leave CONNECTED again, but
            # within the bound it must be CONNECTED *and stay so* for `stable` virtual seconds, with a facade that mirrors the spa.
            stable = 130.0 if mirror_wait > 0 else 0.0
            deadline = t_h + recover_bound + (actions[-1][0] if actions else 0)
            good_since = None
            probs = None
            while True:
                await W.sleep(0.25 if good_since is None or stable == 0 else 1.0)
                await tick()
                now = W.clock.t
                good = not actions and man.spa_state == GeckoSpaState.CONNECTED and man.facade is not None
                if good:
                    if good_since is None:
                        good_since = now
                    if now - good_since >= stable:
                        probs = rec["mirror_fn"](man, sim) if ("mirror_fn" in rec and stable > 0) else []
                        if not probs:
                            rec["ok_at"] = good_since
                            break
                else:
                    good_since = None
                    probs = None
                if (good_since is None and now > deadline) or now > deadline + stable + 60.0:
                    break
            rec["mirror"] = probs if rec["ok_at"] is None and good_since is not None else None
            if rec["ok_at"] is None and good_since is not None and probs:
                rec["ok_at"] = good_since      # connected in time, but the facade does not mirror the spa (reported separately)
            rec["t_end"] = W.clock.t
            rec["final_state"] = man.spa_state
            rec["final_spa"] = man._spa is not None
            rec["final_facade"] = man.facade is not None
            pump = sc.pump_task()
            rec["pump_alive"] = pump is not None and not pump.done()
            rec["pump_exc"] = pump.exception() if pump is not None and pump.done() and not pump.cancelled() else None
        rec["exited_at"] = W.clock.t

    rec["main"] = main
    return rec
