"""Recording stand-ins swapped into a live GeckoAsyncUdpProtocol from the harness
(instance attributes only - no source hook)."""
from __future__ import annotations

import asyncio


def install_queue(protocol, world):
    from geckolib.driver.async_peekablequeue import AsyncPeekableQueue

    class RecordingQueue(AsyncPeekableQueue):
        def __init__(self):
            super().__init__()
            self.log = []      # ("put"|"pop"|"mark", id, t, task, extra)
            self.items = {}    # id -> data
            self._ids = []     # ids in queue order
            self._n = 0
            self.head_since = {}  # id -> time it became head
            self.residence = {}   # id -> seconds spent at the head

        def _now(self):
            return world.clock.t

        def _task(self):
            t = asyncio.current_task()
            return t.get_name() if t is not None else "<callback>"

        def put_nowait(self, item):
            self._n += 1
            i = self._n
            self.items[i] = item[0]
            self._ids.append(i)
            if len(self._ids) == 1:
                self.head_since[i] = self._now()
            self.log.append(("put", i, self._now(), self._task(), None))
            return super().put_nowait(item)

        def pop(self):
            marked = self.is_marked
            i = self._ids.pop(0) if self._ids else None
            now = self._now()
            if i is not None:
                self.residence[i] = now - self.head_since.get(i, now)
                if self._ids:
                    self.head_since[self._ids[0]] = now
            self.log.append(("pop", i, now, self._task(), marked))
            return super().pop()

        def mark(self):
            self.log.append(("mark", self._ids[0] if self._ids else None, self._now(), self._task(), None))
            return super().mark()

    q = RecordingQueue()
    old = protocol._queue
    while old.qsize():
        q.put_nowait(old.get_nowait())
    protocol._queue = q
    return q


def install_lock(protocol, world):
    from geckolib.driver.async_udp_protocol import DbgLock

    class RecordingLock(DbgLock):
        def __init__(self):
            super().__init__()
            self.log = []  # dicts: task, requested, acquired, released
            self._by_task = {}

        async def __aenter__(self):
            t = asyncio.current_task()
            rec = {"task": t.get_name() if t else "?", "requested": world.clock.t, "acquired": None, "released": None}
            self.log.append(rec)
            r = await super().__aenter__()
            rec["acquired"] = world.clock.t
            self._by_task[id(t)] = rec
            return r

        async def __aexit__(self, exc_type, exc, tb):
            t = asyncio.current_task()
            rec = self._by_task.pop(id(t), None)
            r = await super().__aexit__(exc_type, exc, tb)
            if rec is not None:
                rec["released"] = world.clock.t
            return r

    lk = RecordingLock()
    protocol._lock = lk
    return lk
