"""Common runner: generation, sharding, collect-then-shrink, known findings, evidence.

A check module (vp/checks/cNN.py) provides

    ID, LEVEL, RULE, ASSUMPTIONS            strings / list
    BUDGET = {"quick": {...}, "thorough": {...}}   keys: workers, examples, (any extra)
    def run_case(case) -> Result            pure function of the repo tree and the case
    def strategy(tier)                      optional: Hypothesis strategy of JSON cases
    def enumerated(tier)                    optional: (count, fn(index)->case)  finite sweep
    EXHAUSTIVE_NOTE                         optional: what the finite sweep exhausts
    def setup_worker(tier)                  optional

Exit codes: 0 held, 1 VIOLATION, 2 harness error.
"""
from __future__ import annotations

import fnmatch
import hashlib
import json
import multiprocessing
import os
import re
import sys
import time
import traceback

VERIF = os.path.dirname(os.path.dirname(os.path.abspath(__file__)))
REPO = os.environ.get("VERIF_REPO", "/repo")
REPO_SRC = os.path.join(REPO, "src")


class InvalidCase(Exception):
    """Raised by run_case when a (shrunk / hand-edited) case is outside the domain."""


class HarnessError(Exception):
    pass


class SetupFailed(HarnessError):
    """The library did not do a deterministic, fault-free thing a case builds on (connect to the in-process simulator on a
    loss-free virtual network, settle after a command, reach quiescence).  On the unchanged tree this never happens; on a
    changed tree it is the change that did it, so it is reported as a violation of the property under test (signature
    <ID>|setup|...), not as a harness error."""


class Result:
    __slots__ = ("violations", "nontrivial", "labels", "key")

    def __init__(self):
        self.violations = []  # [(signature, message)]
        self.nontrivial = False
        self.labels = []
        self.key = None  # distinctness key (defaults to canonical JSON of the case)

    def fail(self, signature, message):
        self.violations.append((str(signature), str(message)[:2000]))

    def label(self, *names):
        self.labels.extend(names)


def canon(obj) -> str:
    return json.dumps(obj, sort_keys=True, separators=(",", ":"), default=str)


def digest(obj) -> bytes:
    return hashlib.blake2b(canon(obj).encode(), digest_size=8).digest()


def derive_seed(*parts) -> int:
    h = hashlib.blake2b(canon(list(parts)).encode(), digest_size=8).digest()
    return int.from_bytes(h, "big") % (2**63)


# ------------------------------------------------------------------ exceptions from the library


def classify_exception(exc) -> tuple[bool, str]:
    """(is_library, signature-part).  An exception whose traceback passes through the
    repository sources is attributed to the library; a traceback that only touches the
    harness is a harness error."""
    tb = traceback.extract_tb(exc.__traceback__)
    lib = [f for f in tb if os.path.abspath(f.filename).startswith(os.path.abspath(REPO_SRC))]
    if not lib:
        return False, ""
    f = lib[-1]
    rel = os.path.relpath(f.filename, REPO_SRC)
    return True, f"{type(exc).__name__}@{rel}:{f.name}"


def guarded_run(mod, case) -> Result:
    try:
        res = mod.run_case(case)
    except InvalidCase:
        raise
    except SetupFailed as exc:
        res = Result()
        slug = re.sub(r"[^a-z0-9]+", "-", str(exc).split(":")[0].lower()).strip("-")[:60]
        res.fail(f"{mod.ID}|setup|{slug}", f"the library failed a fault-free step the case builds on: {exc}")
        return res
    except HarnessError:
        raise
    except BaseException as exc:  # noqa
        if isinstance(exc, (KeyboardInterrupt, SystemExit)):
            raise
        is_lib, where = classify_exception(exc)
        if not is_lib:
            raise HarnessError(
                "harness exception in run_case: " + "".join(traceback.format_exception(exc))
            ) from exc
        res = Result()
        res.fail(
            f"{mod.ID}|unexpected-exception|{where}",
            "".join(traceback.format_exception(exc))[-1500:],
        )
    return res


# ------------------------------------------------------------------ known findings


def load_known():
    path = os.path.join(VERIF, "known_findings.json")
    if not os.path.exists(path):
        return {"findings": [], "fixed": []}
    with open(path) as f:
        return json.load(f)


def known_match(known, prop, signature):
    for k in known["findings"]:
        if k["property"] == prop and fnmatch.fnmatchcase(signature, k["signature"]):
            return k
    return None


# ------------------------------------------------------------------ shrinking (generic JSON ddmin)


def _shrink_candidates(value):
    """Yield simpler variants of a JSON value (one step)."""
    if isinstance(value, list):
        n = len(value)
        if n:
            chunk = n
            while chunk >= 1:
                for start in range(0, n, chunk):
                    cand = value[:start] + value[start + chunk :]
                    if len(cand) < n:
                        yield cand
                chunk //= 2
        for i, v in enumerate(value):
            for c in _shrink_candidates(v):
                yield value[:i] + [c] + value[i + 1 :]
    elif isinstance(value, dict):
        for k in sorted(value):
            for c in _shrink_candidates(value[k]):
                d = dict(value)
                d[k] = c
                yield d
    elif isinstance(value, bool):
        if value:
            yield False
    elif isinstance(value, int):
        if value != 0:
            yield 0
            if abs(value) > 1:
                yield value // 2
            yield value - 1 if value > 0 else value + 1
    elif isinstance(value, float):
        if value != 0.0:
            yield 0.0
            if value != round(value):
                yield float(round(value))
            yield value / 2


def shrink(mod, case, signature, max_evals):
    evals = 0

    def still_fails(c):
        nonlocal evals
        evals += 1
        try:
            r = guarded_run(mod, c)
        except (InvalidCase, HarnessError):
            return False
        return any(s == signature for s, _ in r.violations)

    best = case
    improved = True
    while improved and evals < max_evals:
        improved = False
        for cand in _shrink_candidates(best):
            if evals >= max_evals:
                break
            if len(canon(cand)) >= len(canon(best)) and not isinstance(cand, (int, float)):
                # only accept structurally smaller or numerically simpler candidates
                pass
            if still_fails(cand):
                best = cand
                improved = True
                break
    return best, evals


# ------------------------------------------------------------------ worker


class _Acc:
    def __init__(self):
        self.evaluations = 0
        self.nontrivial = set()
        self.labels = {}
        self.samples = []
        self.viol = {}  # sig -> {"message","case","count"}
        self.invalid = 0
        self.skipped_budget = 0
        self.errors = []  # harness errors of single cases (text); decided by the driver once all verdicts are in

    def add(self, case, res: Result):
        self.evaluations += 1
        if res.nontrivial:
            self.nontrivial.add(digest(res.key if res.key is not None else case))
            if len(self.samples) < 3:
                s = canon(case)
                self.samples.append(json.loads(s) if len(s) < 3000 else s[:3000] + "...")
        for lab in res.labels:
            if isinstance(lab, (tuple, list)):  # (name, count): a case that covers many sub-evaluations
                self.labels[lab[0]] = self.labels.get(lab[0], 0) + int(lab[1])
            else:
                self.labels[lab] = self.labels.get(lab, 0) + 1
        for sig, msg in res.violations:
            v = self.viol.get(sig)
            size = len(canon(case))
            if v is None:
                self.viol[sig] = {"message": msg, "case": case, "count": 1, "size": size}
            else:
                v["count"] += 1
                if size < v["size"]:
                    v.update(message=msg, case=case, size=size)

    def export(self):
        return {
            "evaluations": self.evaluations,
            "nontrivial": list(self.nontrivial),
            "labels": self.labels,
            "samples": self.samples,
            "viol": self.viol,
            "invalid": self.invalid,
            "skipped_budget": self.skipped_budget,
            "errors": self.errors,
        }


def _worker(args):
    modname, tier, seed, index, nworkers, wall_budget = args
    try:
        import importlib

        mod = importlib.import_module(modname)
        acc = _Acc()
        t0 = time.time()
        if hasattr(mod, "setup_worker"):
            mod.setup_worker(tier)

        def over_budget():
            return wall_budget and (time.time() - t0) > wall_budget

        # --- finite sweep, partitioned deterministically
        if hasattr(mod, "enumerated"):
            count, fn = mod.enumerated(tier)
            for i in range(index, count, nworkers):
                if over_budget():
                    acc.skipped_budget += 1
                    continue
                case = fn(i)
                try:
                    acc.add(case, guarded_run(mod, case))
                except InvalidCase:
                    acc.invalid += 1
                except HarnessError as exc:
                    # a case the harness cannot judge does not hide what the oracles say about the other cases
                    if len(acc.errors) >= 20:
                        raise
                    acc.errors.append("".join(traceback.format_exception(exc))[-4000:])

        # --- generated cases
        budget = mod.BUDGET[tier]
        nex = int(budget.get("examples", 0))
        if hasattr(mod, "strategy") and nex > 0:
            import hypothesis
            from hypothesis import HealthCheck, Phase, given, settings

            strat = mod.strategy(tier)
            # examples budget is per run; split over workers
            per = max(1, (nex + nworkers - 1) // nworkers)

            @hypothesis.seed(derive_seed(seed, mod.ID, index))
            @settings(
                max_examples=per,
                database=None,
                deadline=None,
                derandomize=False,
                report_multiple_bugs=False,
                phases=[Phase.generate],
                suppress_health_check=list(HealthCheck),
            )
            @given(strat)
            def prop(case):
                if over_budget():
                    acc.skipped_budget += 1
                    return
                try:
                    acc.add(case, guarded_run(mod, case))
                except InvalidCase:
                    acc.invalid += 1
                except HarnessError as exc:
                    if len(acc.errors) >= 20:
                        raise
                    acc.errors.append("".join(traceback.format_exception(exc))[-4000:])

            prop()
        return ("ok", acc.export())
    except BaseException as exc:  # noqa
        return ("error", "".join(traceback.format_exception(exc)))


# ------------------------------------------------------------------ driver


def _emit_evidence(mod, tier, seed, cov, wall, nviol):
    ev = {
        "property_id": mod.ID,
        "tier": tier,
        "seed": seed,
        "level": mod.LEVEL,
        "coverage": cov,
        "assumptions": list(getattr(mod, "ASSUMPTIONS", [])),
        "wall_s": round(wall, 3),
        "violations": nviol,
    }
    # VERIF_SCRATCH redirects evidence and shrunk replays (runs against seeded changes must not touch the committed evidence)
    edir = os.path.join(os.environ["VERIF_SCRATCH"], "evidence") if os.environ.get("VERIF_SCRATCH") else os.path.join(VERIF, "evidence")
    os.makedirs(edir, exist_ok=True)
    path = os.path.join(edir, f"{mod.ID}.json")
    tmp = path + ".tmp"
    with open(tmp, "w") as f:
        json.dump(ev, f, indent=1, sort_keys=True, default=str)
        f.write("\n")
    os.replace(tmp, path)


def _replay_file(mod, path):
    with open(path) as f:
        doc = json.load(f)
    case = doc["case"] if isinstance(doc, dict) and "case" in doc else doc
    return case, guarded_run(mod, case)


def run_replay(mod, path):
    case, res = _replay_file(mod, path)
    known = load_known()
    rc = 0
    for sig, msg in res.violations:
        k = known_match(known, mod.ID, sig)
        if k:
            print(f"KNOWN-FINDING: property={mod.ID} {k['what']}")
        else:
            print(f"VIOLATION property={mod.ID} replay={path}")
            print(f"  signature: {sig}\n  {msg}")
            rc = 1
    if not res.violations:
        print(f"replay held: property={mod.ID} {path}")
    return rc


def run_check(mod, tier):
    t0 = time.time()
    seed = int(os.environ.get("VERIF_SEED", "1"))
    known = load_known()
    budget = mod.BUDGET[tier]
    nworkers = int(os.environ.get("VERIF_WORKERS", budget.get("workers", 16)))
    wall_budget = float(os.environ.get("VERIF_WALL", budget.get("wall_s", 0)))

    new_viol = {}  # sig -> {"message","case"}
    known_seen = {}  # finding signature pattern -> count
    replayed = 0

    def note_violation(sig, msg, case, count=1):
        k = known_match(known, mod.ID, sig)
        if k:
            known_seen[k["signature"]] = known_seen.get(k["signature"], 0) + count
        elif sig not in new_viol:
            new_viol[sig] = {"message": msg, "case": case, "count": count}
        else:
            new_viol[sig]["count"] += count

    # 1. replay tier: committed regression inputs, known findings, fixed findings
    rdir = os.path.join(VERIF, "replays", mod.ID)
    files = sorted(os.listdir(rdir)) if os.path.isdir(rdir) else []
    for fn in files:
        if not fn.endswith(".json"):
            continue
        case, res = _replay_file(mod, os.path.join(rdir, fn))
        replayed += 1
        for sig, msg in res.violations:
            note_violation(sig, msg, case)
    known_reproduced = []
    for k in known["findings"]:
        if k["property"] != mod.ID:
            continue
        rp = os.path.join(VERIF, k["replay"])
        case, res = _replay_file(mod, rp)
        replayed += 1
        hit = False
        for sig, msg in res.violations:
            if fnmatch.fnmatchcase(sig, k["signature"]):
                hit = True
            note_violation(sig, msg, case)
        if hit:
            known_reproduced.append(k["signature"])
            print(f"KNOWN-FINDING: property={mod.ID} {k['what']}")
        else:
            print(
                f"note: known finding no longer reproduces (property={mod.ID} {k['signature']})",
                file=sys.stderr,
            )
    for k in known.get("fixed", []):
        if k["property"] != mod.ID:
            continue
        rp = os.path.join(VERIF, k["replay"])
        case, res = _replay_file(mod, rp)
        replayed += 1
        for sig, msg in res.violations:
            note_violation(sig, msg, case)

    # 2. generation, sharded
    ctx = multiprocessing.get_context("fork")
    args = [(mod.__name__, tier, seed, i, nworkers, wall_budget) for i in range(nworkers)]
    if nworkers == 1:
        outs = [_worker(args[0])]
    else:
        with ctx.Pool(nworkers) as pool:
            outs = pool.map(_worker, args, chunksize=1)
    errors = [o[1] for o in outs if o[0] != "ok"]
    if errors:
        print("HARNESS ERROR in worker:\n" + errors[0], file=sys.stderr)
        return 2
    # harness errors of single cases: fatal (exit 2) unless the oracles found violations in other cases - then those are
    # reported, with the harness errors noted on stderr (never on a tree without violations: there the check is broken)
    case_errors = [e for _, o in outs for e in o.get("errors", [])]

    evaluations = replayed
    nontrivial = set()
    labels = {}
    samples = []
    invalid = skipped = 0
    for _, o in outs:
        evaluations += o["evaluations"]
        nontrivial.update(o["nontrivial"])
        invalid += o["invalid"]
        skipped += o["skipped_budget"]
        for k_, v in o["labels"].items():
            labels[k_] = labels.get(k_, 0) + v
        for s in o["samples"]:
            if len(samples) < 6:
                samples.append(s)
        for sig, v in o["viol"].items():
            note_violation(sig, v["message"], v["case"], v["count"])
    if case_errors and not new_viol:
        print(f"HARNESS ERROR in {len(case_errors)} case(s):\n" + case_errors[0], file=sys.stderr)
        return 2
    if case_errors:
        print(f"note: {len(case_errors)} case(s) ended in a harness error and were not judged; first:\n" + case_errors[0][-600:], file=sys.stderr)

    # 3. shrink + report new signatures
    outdir = os.path.join(os.environ.get("VERIF_SCRATCH") or VERIF, "out", mod.ID)
    lines = []
    # (VERIF_SHRINK_EVALS=n: shrink budget override - the seeded-change runs only need the verdict)
    max_evals = int(os.environ.get("VERIF_SHRINK_EVALS") or budget.get("shrink_evals", 200 if tier == "quick" else 3000))
    max_report = int(budget.get("max_report", 25))
    for n_sig, sig in enumerate(sorted(new_viol)):
        v = new_viol[sig]
        if n_sig >= max_report:
            # many signatures: usually one root cause seen from many sites; keep the output bounded
            lines.append((sig, lines[0][1], v["message"]))
            continue
        try:
            small, used = shrink(mod, v["case"], sig, max_evals)
        except Exception:  # noqa  shrinking is best effort
            small, used = v["case"], -1
        os.makedirs(outdir, exist_ok=True)
        h = hashlib.blake2b(sig.encode(), digest_size=6).hexdigest()
        path = os.path.join(outdir, f"{h}.json")
        with open(path, "w") as f:
            json.dump(
                {
                    "property": mod.ID,
                    "signature": sig,
                    "message": v["message"],
                    "occurrences": v["count"],
                    "shrink_evaluations": used,
                    "case": small,
                },
                f,
                indent=1,
                default=str,
            )
        lines.append((sig, path, v["message"]))

    if not samples:
        samples = ["(no non-trivial sample recorded)"]
    cov = {
        "evaluations": evaluations,
        "distinct_nontrivial": len(nontrivial),
        "rule": mod.RULE,
        "samples": samples,
        "labels": dict(sorted(labels.items())),
        "workers": nworkers,
        "replayed_inputs": replayed,
        "invalid_cases_skipped": invalid,
        "cases_skipped_wall_budget": skipped,
        "budget_exhausted": bool(skipped),
        "excluded_by_signature": {k_: v for k_, v in sorted(known_seen.items())},
        "known_findings_reproduced": known_reproduced,
        "new_signatures": [s for s, _, _ in lines],
    }
    if hasattr(mod, "coverage_extra"):
        cov.update(mod.coverage_extra(tier))
    _emit_evidence(mod, tier, seed, cov, time.time() - t0, len(lines))

    for sig, path, msg in lines:
        print(f"VIOLATION property={mod.ID} replay={path}")
        print(f"  signature: {sig}")
        print("  " + msg.strip().replace("\n", "\n  ")[:1500])
    print(
        f"{mod.ID} {tier}: evaluations={evaluations} distinct_nontrivial={len(nontrivial)} "
        f"violations={len(lines)} known={sum(known_seen.values())} wall={time.time()-t0:.1f}s"
    )
    return 1 if lines else 0
