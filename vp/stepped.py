"""E4: stepped threaded engine.

The real GeckoUdpSocket._thread_func runs on the harness thread against a scripted mock socket;
time.monotonic is a virtual clock (+1 us per read); threading.Thread inside the library's
modules is an inert stand-in (records the target, never runs).  recvfrom() is the iteration
boundary: it returns the next datagram that has arrived by now (a blocking recvfrom returns as
soon as data arrives) or advances virtual time by the socket timeout and raises socket.timeout;
after the scripted number of iterations it sets the exit event so the library's own loop ends.
"""
from __future__ import annotations

import contextlib
import heapq
import socket as _socket
import threading as _threading
import time as _time
import types

from .runner import HarnessError, SetupFailed
from . import vworld

CLIENT_ADDR = ("10.0.0.2", 40000)
SPA_ADDR = ("10.0.0.50", 10022)


class VTime:
    def __init__(self):
        self.t = 5000.0

    def monotonic(self):
        self.t += 1e-6
        return self.t


class InertThread:
    created = []

    def __init__(self, target=None, daemon=None, args=(), kwargs=None, name=None):
        self.target = target
        self.started = False
        InertThread.created.append(self)

    def start(self):
        self.started = True

    def join(self, timeout=None):
        return None

    def is_alive(self):
        return False


def _shim_threading():
    m = types.ModuleType("threading_shim")
    m.Thread = InertThread
    m.Lock = _threading.Lock
    m.RLock = _threading.RLock
    m.Event = _threading.Event
    m.current_thread = _threading.current_thread
    return m


class ScriptSocket:
    """mock of socket.socket for the engine"""

    def __init__(self, engine):
        self.e = engine
        self.closed = False
        self.timeout = None

    def settimeout(self, t):
        self.timeout = t

    def setsockopt(self, *a):
        pass

    def bind(self, *a):
        pass

    def sendto(self, data, addr):
        # the thread may be held up between taking the datagram off the queue and the moment the OS sends it (pre-emption, a lock):
        # the next entry of send_delays is the virtual time that passes first
        delays = getattr(self.e, "send_delays", None)
        if delays:
            self.e.vt.t += delays.pop(0)
        self.e.on_send(bytes(data), addr)
        return len(data)

    def recvfrom(self, n):
        data, addr = self.e.on_recv()
        return data[:n], addr      # a datagram socket silently truncates to the buffer size it is given

    def close(self):
        self.closed = True


class Engine:
    """drives one GeckoUdpSocket-derived object"""

    LATENCY = 0.003
    PACING = 0.02

    def __init__(self, vt=None):
        self.vt = vt or VTime()
        self.sock = ScriptSocket(self)
        self.obj = None
        self.inbox = []  # heap of (time, n, data, addr)
        self._n = 0
        self.sent = []  # (t, data, addr)
        self.iterations = 0
        self.max_iterations = 100000
        self.stop_when = None
        self.peer = None  # callable(data, client_addr) -> [(reply bytes, dest)]
        self.c2s_tape = []
        self.s2c_tape = []
        self.c2s_cycle = None
        self.s2c_cycle = None
        self.wire = []  # (t, dir, data, fate)
        self.timeout_step = 0.05
        self.on_iteration = None
        self.policy = None  # optional object with c2s(data)->action|None and s2c(data, i, n)->action|None (overrides the tapes)

    # -- wiring
    def attach(self, obj):
        """what __enter__ does, minus the thread"""
        self.obj = obj
        obj._socket = self.sock
        self.sock.settimeout(obj._SOCKET_TIMEOUT)
        obj._exit_event = _threading.Event()
        self.timeout_step = obj._SOCKET_TIMEOUT
        return obj

    def deliver(self, data, addr, at=None):
        self._n += 1
        heapq.heappush(self.inbox, (self.vt.t + self.LATENCY if at is None else at, self._n, data, addr))

    def _action(self, direction):
        tape = self.c2s_tape if direction == "c2s" else self.s2c_tape
        if not tape:
            cyc = self.c2s_cycle if direction == "c2s" else self.s2c_cycle
            if cyc:
                tape.extend(cyc)
        return tape.pop(0) if tape else "deliver"

    def on_send(self, data, addr):
        now = self.vt.t
        self.sent.append((now, data, addr))
        if self.peer is None:
            self.wire.append((now, "c2s", data, "no-peer"))
            return
        act = self.policy.c2s(data) if self.policy is not None else None
        if act is None:
            act = self._action("c2s")
        self.wire.append((now, "c2s", data, act if isinstance(act, str) else "delay"))
        if act == "drop":
            return
        copies = 2 if act == "dup" else 1
        extra = float(act[1]) if isinstance(act, tuple) and act[0] == "delay" else 0.0
        for c in range(copies):
            replies = self.peer(data, CLIENT_ADDR)
            self._spa_replies(replies, now + self.LATENCY + extra + c * 0.001)

    def _spa_replies(self, replies, t0):
        i = 0
        t = t0 + self.LATENCY
        while i < len(replies):
            data, dest = replies[i]
            act = self.policy.s2c(data, i, len(replies)) if self.policy is not None else None
            if act is None:
                act = self._action("s2c")
            when = t + i * self.PACING
            if act == "drop":
                self.wire.append((t0, "s2c", data, "drop"))
            elif act == "dup":
                self.wire.append((t0, "s2c", data, "dup"))
                self.deliver(data, SPA_ADDR, when)
                self.deliver(data, SPA_ADDR, when + 0.001)
            elif isinstance(act, tuple) and act[0] == "delay":
                self.wire.append((t0, "s2c", data, "delay"))
                self.deliver(data, SPA_ADDR, when + float(act[1]))
            elif isinstance(act, tuple) and act[0] == "replace":
                # the spa's reply arrives with other content (a garbled / nonsensical but well-framed answer)
                self.wire.append((t0, "s2c", act[1], "replace"))
                self.deliver(act[1], SPA_ADDR, when)
            elif act == "swap" and i + 1 < len(replies):
                self.wire.append((t0, "s2c", data, "swap"))
                self.wire.append((t0, "s2c", replies[i + 1][0], "swapped-forward"))
                self.deliver(replies[i + 1][0], SPA_ADDR, when)
                self.deliver(data, SPA_ADDR, when + self.PACING)
                i += 2
                continue
            else:
                self.wire.append((t0, "s2c", data, "deliver"))
                self.deliver(data, SPA_ADDR, when)
            i += 1

    def on_recv(self):
        self.iterations += 1
        if self.on_iteration is not None:
            self.on_iteration(self)
        if self.iterations >= self.max_iterations or (self.stop_when is not None and self.stop_when()):
            self.obj._exit_event.set()
        now = self.vt.t
        if self.inbox and self.inbox[0][0] <= now + self.timeout_step:
            when, _, data, addr = heapq.heappop(self.inbox)
            if when > now:
                self.vt.t = when
            return data, addr
        self.vt.t = now + self.timeout_step
        raise _socket.timeout()

    # -- running
    @contextlib.contextmanager
    def patched(self):
        import geckolib.driver.udp_socket as us
        import geckolib.spa as spamod
        import geckolib.locator as locmod
        import geckolib.automation.facade as facmod

        saved_mono = _time.monotonic
        shim = _shim_threading()
        mods = [us, spamod, locmod, facmod]
        saved = [(m, m.threading) for m in mods if hasattr(m, "threading")]
        InertThread.created = []
        _time.monotonic = self.vt.monotonic
        for m, _ in saved:
            m.threading = shim
        try:
            yield self
        finally:
            _time.monotonic = saved_mono
            for m, th in saved:
                m.threading = th
            vworld.reset_globals()

    def run(self):
        """run the library's own engine loop until the exit event is set"""
        self.obj._thread_func()


def sim_peer(sim):
    """peer callable backed by the in-process simulator"""
    def peer(data, client_addr):
        sock = sim._socket
        sock.dispatch_recevied_data(data, client_addr)
        out = list(sock._send_handlers)
        del sock._send_handlers[:]
        res = []
        for h, dest in out:
            try:
                res.append((h.send_bytes, (dest[0], dest[1])))
            except Exception:  # noqa
                pass
        return res
    return peer


# ------------------------------------------------------------------ C01 threaded transfers


def run_structure_transfers(S, C, transfers, struct_hook=None):
    """a list of transfers on ONE GeckoStructure / one socket (as a spa connection does);
    transfers: dicts with start, len, c2s, s2c (decoded tapes), s2c_cycle (bool)"""
    from geckolib.driver import (GeckoPacketProtocolHandler, GeckoStatusBlockProtocolHandler,
                                 GeckoStructure, GeckoUdpSocket)

    sim = vworld.make_simulator()
    eng = Engine()
    outs = []
    with eng.patched():
        sock = eng.attach(GeckoUdpSocket())
        eng.peer = sim_peer(sim)
        sock.add_receive_handler(GeckoPacketProtocolHandler(socket=sock))
        struct = GeckoStructure(None)
        if struct_hook is not None:
            struct_hook(struct)     # e.g. build the accessors of a pack and watch them
        parms = (SPA_ADDR[0], SPA_ADDR[1], b"SPA01:02:03:04:05:06", b"IOSvp")
        for tr in transfers:
            sim.structure.set_status_block(S)
            struct.set_status_block(C)
            struct.had_at_least_one_block = False
            eng.c2s_tape = list(tr["c2s"])
            eng.s2c_tape = list(tr["s2c"])
            eng.s2c_cycle = list(tr["s2c"]) if tr.get("s2c_cycle") and tr["s2c"] else None
            s0, w0 = len(eng.sent), len(eng.wire)
            req = GeckoStatusBlockProtocolHandler.request(
                sock.get_and_increment_sequence_counter(False), tr["start"], tr["len"], parms=parms)
            budget = 1 + req._retry_count
            struct.retry_request(sock, req, parms)
            sock._exit_event.clear()
            eng.iterations = 0
            eng.max_iterations = 60000
            eng.stop_when = lambda: req not in sock._receive_handlers and not eng.inbox and not sock._send_handlers
            eng.run()
            if req in sock._receive_handlers:
                raise SetupFailed("threaded transfer did not finish within the iteration budget")
            wire = eng.wire[w0:]
            seg_faults = sum(1 for w in wire if w[1] == "s2c" and w[3] != "deliver")
            req_faults = sum(1 for w in wire if w[1] == "c2s" and w[3] != "deliver")
            outs.append({"block": struct.status_block, "ok": bool(struct.had_at_least_one_block),
                         "nstatu": sum(1 for _, d, _ in eng.sent[s0:] if b"<DATAS>STATU" in d),
                         "budget": budget, "faulty": bool(seg_faults or req_faults), "seg_faults": seg_faults})
            eng.c2s_tape, eng.s2c_tape, eng.s2c_cycle = [], [], None
    return outs


# ------------------------------------------------------------------ threaded GeckoSpa on the engine

CLIENT_ID = b"IOSvp-client-uuid"
SPA_ID = b"SPA01:02:03:04:05:06"


def make_threaded_spa(eng, sim):
    """a GeckoSpa attached to the engine (must be called inside eng.patched())"""
    from geckolib.spa import GeckoSpa
    from geckolib.spa_descriptor import GeckoSpaDescriptor

    desc = GeckoSpaDescriptor(CLIENT_ID, SPA_ID, "Spa", SPA_ADDR)
    spa = GeckoSpa(desc)
    eng.attach(spa)
    eng.peer = sim_peer(sim)
    return spa


def run_until(eng, cond, max_iterations=40000):
    """run the library's engine loop until cond() holds (checked once per iteration)"""
    eng.obj._exit_event.clear()
    eng.iterations = 0
    eng.max_iterations = max_iterations
    eng.stop_when = cond
    eng.run()
    return cond()


def quiescent(eng, spa):
    from geckolib.driver import GeckoStatusBlockProtocolHandler

    def q():
        if eng.inbox or spa._send_handlers:
            return False
        return not any(isinstance(h, GeckoStatusBlockProtocolHandler) for h in spa._receive_handlers)
    return q


def connect_threaded_spa(eng, sim, max_iterations=40000, eager=0):
    """eager > 0: the socket thread is scheduled right away, for that many iterations, every time the connecting thread queues a
    datagram inside start_connect() (a pre-emption the real threads allow at any instant)"""
    spa = make_threaded_spa(eng, sim)
    exit_event = spa._exit_event
    if eager:
        orig_queue_send = spa.queue_send

        def eager_queue_send(*a, **k):
            r = orig_queue_send(*a, **k)
            spa.queue_send = orig_queue_send
            try:
                run_until(eng, lambda: False, max_iterations=int(eager))
            finally:
                spa.queue_send = eager_queue_send
            return r
        spa.queue_send = eager_queue_send
    spa.start_connect()  # open() re-creates the exit event and an inert thread; keeps our socket
    if eager:
        spa.queue_send = orig_queue_send
    ok = run_until(eng, lambda: spa._is_connected and not eng.inbox and not spa._send_handlers, max_iterations)
    return spa, ok
