"""Facade construction helpers (C11, C12, C17): real facades on a spa object that was filled the
way the connection code fills it, without any network."""
from __future__ import annotations

import asyncio

from . import packs


class FakeTaskMan:
    """AsyncTasks-compatible object; tasks are created on the running loop"""

    unique_id = "SPA010203040506"
    spa_name = "My Tub"

    def __init__(self):
        self._tasks = []

    def add_task(self, coroutine, name_, key_):
        t = asyncio.create_task(coroutine, name=f"{key_}:{name_}")
        self._tasks.append(t)

    def cancel_key_tasks(self, key_):
        for t in self._tasks:
            if t.get_name().startswith(f"{key_}:"):
                t.cancel()


def make_async_spa(plat, cv, lv, block, taskman):
    """a real GeckoAsyncSpa object, never connected, filled as _connect fills it"""
    from geckolib import GeckoAsyncSpa, GeckoAsyncSpaDescriptor

    async def ev(*a, **k):
        return None

    desc = GeckoAsyncSpaDescriptor(b"SPA01:02:03:04:05:06", "Spa", ("10.0.0.50", 10022))
    spa = GeckoAsyncSpa(b"IOSvp", desc, taskman, ev)
    spa.struct.set_status_block(block)
    pack, cfg, log = packs.build_real(spa.struct, plat, cv, lv)
    spa.pack_class, spa.config_class, spa.log_class = pack, cfg, log
    spa.pack_type = pack.type
    spa.config_version, spa.log_version = cv, lv
    spa._is_connected = True
    return spa


def make_sync_spa(plat, cv, lv, block):
    """a never-opened threaded GeckoSpa filled as _final_connect needs it (threads inert: use
    inside stepped.Engine().patched())"""
    from geckolib.spa import GeckoSpa
    from geckolib.spa_descriptor import GeckoSpaDescriptor

    desc = GeckoSpaDescriptor(b"IOSvp", b"SPA01:02:03:04:05:06", "Spa", ("10.0.0.50", 10022))
    spa = GeckoSpa(desc)
    spa.struct.set_status_block(block)
    pack, cfg, log = packs.build_real(spa.struct, plat, cv, lv)
    spa.new_pack_class, spa.new_config_class, spa.new_log_class = pack, cfg, log
    spa.pack_type = pack.type
    spa.config_version, spa.log_version = cv, lv
    spa._is_connected = True
    return spa
