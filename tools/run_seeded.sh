#!/bin/bash
# tools/run_seeded.sh [tier] [seeded-dir ...] : run each seeded change's property check against a scratch worktree of /repo HEAD
# with the change applied (VERIF_REPO), evidence/replays redirected to a scratch dir.  Prints one line per change.
TIER="${1:-quick}"; shift
cd "$(dirname "$(readlink -f "$0")")/.." || exit 3; ROOT=$PWD
SFX="${SEEDED_SFX:-}"; WT=/var/tmp/gk-seeded-wt$SFX; SCR=/var/tmp/gk-seeded-scratch$SFX
git -C /repo worktree remove --force $WT 2>/dev/null; rm -rf $WT $SCR
git -C /repo worktree add -q --detach $WT HEAD || exit 3
DIRS="$@"; [ -z "$DIRS" ] && DIRS=$(ls -d seeded/*/ | sort)
for d in $DIRS; do
  d=${d%/}; name=$(basename $d); ID=${name%%-*}
  if grep -q '"obsolete"' $ROOT/$d/meta.json 2>/dev/null; then echo "$name: OBSOLETE (neutralised by a later fix, see meta.json)"; continue; fi
  git -C $WT checkout -q -- . ; git -C $WT clean -fdq
  if ! git -C $WT apply $ROOT/$d/patch.diff 2>/dev/null; then echo "$name: PATCH DOES NOT APPLY"; continue; fi
  t0=$(date +%s)
  out=$(VERIF_REPO=$WT VERIF_SCRATCH=$SCR VERIF_SHRINK_EVALS=${VERIF_SHRINK_EVALS:-1} ./check $ID $TIER 2>&1); rc=$?
  sigs=$(echo "$out" | grep "signature:" | sed 's/ *signature: //' | head -3 | tr '\n' ';')
  echo "$name: rc=$rc $(( $(date +%s) - t0 ))s $sigs"
  [ $rc -ge 2 ] && echo "$out" | tail -5
done
git -C /repo worktree remove --force $WT; rm -rf $SCR
