#!/usr/bin/env python3
"""tools/seeded_table.py <matrix.txt> : rewrites the seeded-change table in DESIGN.md (between the SEEDED-MATRIX markers)
from the output of tools/run_seeded.sh and the meta.json of every seeded change."""
import json, os, re, sys
HERE = os.path.dirname(os.path.dirname(os.path.abspath(__file__)))
rows = {}
for line in open(sys.argv[1]):
    m = re.match(r"^(C\d\d-m\d+): rc=(\d+) (\d+)s ?(.*)$", line.strip())
    if m:
        rows[m.group(1)] = (int(m.group(2)), int(m.group(3)), [s for s in m.group(4).split(";") if s])
out = ["<!-- SEEDED-MATRIX-BEGIN -->",
       "| change | what it does (one line) | needs | caught by (quick, seed 1) |", "|---|---|---|---|"]
caught = 0
for name in sorted(os.listdir(os.path.join(HERE, "seeded"))):
    meta = json.load(open(os.path.join(HERE, "seeded", name, "meta.json")))
    summ = re.sub(r"\s+", " ", str(meta.get("summary", ""))).strip()
    needs = re.sub(r"\s+", " ", str(meta.get("needs_to_manifest", ""))).strip()
    cut = lambda t, n: (t[:n].rsplit(" ", 1)[0] + " ...") if len(t) > n else t
    rc, secs, sigs = rows.get(name, (None, None, []))
    if meta.get("obsolete"):
        verdict = "(obsolete: " + str(meta["obsolete"])[:90] + " ...)"
    elif rc == 1:
        caught += 1
        verdict = "`" + "`, `".join(s.replace("|", "\\|") for s in sigs[:2]) + "`" + (" ..." if len(sigs) > 2 else "") + f" ({secs} s)"
    elif rc == 0 and meta.get("caught_by_other"):
        verdict = "missed by the check of its own property; caught by " + str(meta["caught_by_other"])[:160]
    elif rc == 0:
        verdict = "**missed**" + (" - " + str(meta["not_caught_because"])[:200] if meta.get("not_caught_because") else "")
    elif rc is None:
        verdict = "(not run)"
    else:
        verdict = f"harness error rc={rc}"
    out.append(f"| {name} | {cut(summ, 230).replace('|', '/')} | {cut(needs, 170).replace('|', '/')} | {verdict} |")
out.append("")
out.append(f"{caught} of {len(os.listdir(os.path.join(HERE, 'seeded')))} seeded changes are caught by the quick tier of the check of their own property.")
out.append("<!-- SEEDED-MATRIX-END -->")
p = os.path.join(HERE, "DESIGN.md")
s = open(p).read()
block = "\n".join(out)
if "<!-- SEEDED-MATRIX-BEGIN -->" in s:
    s = re.sub(r"<!-- SEEDED-MATRIX-BEGIN -->.*<!-- SEEDED-MATRIX-END -->", lambda m: block, s, flags=re.S)
else:
    s = s.replace("SEEDED-MATRIX-PLACEHOLDER", block)
open(p, "w").write(s)
print("table written:", caught, "caught")
