#!/bin/bash
# tools/confirm_seed.sh <ID> <k> : confirm an agent-made seeded change in its scratch worktree and keep it
# under /verif/seeded/<ID>-m<k>/ (patch.diff, demo.py, meta.json).  Nothing is applied to /repo here.
ID="$1"; K="$2"; SRC=/tmp/mut-$ID/m$K; WT=/tmp/wt-$ID; DST=/verif/seeded/$ID-m$K
[ -f $SRC/patch.diff ] || { echo "no patch $SRC"; exit 2; }
git -C $WT checkout -q -- . ; git -C $WT clean -fdq
# bring the scratch worktree to /repo HEAD so the patch is confirmed against the current tree
git -C $WT checkout -q --detach $(git -C /repo rev-parse HEAD)
run_demo() { ( cd /tmp && PYTHONPATH=$WT/src timeout 120 /venv/bin/python $SRC/demo.py >/tmp/demo-$ID-$K.$1.out 2>&1; echo $? ); }
d0=$(run_demo clean)
git -C $WT apply $SRC/patch.diff || { echo "patch does not apply to HEAD"; exit 2; }
ts=$(cd $WT && /venv/bin/python -m pytest -q -p no:cacheprovider tests 2>&1 | tail -1)
d1=$(run_demo patched)
git -C $WT checkout -q -- . ; find $WT -name __pycache__ -prune -exec rm -rf {} + 2>/dev/null
echo "$ID m$K: demo clean rc=$d0, tests with patch: $ts, demo patched rc=$d1"
if [ "$d0" = 0 ] && [ "$d1" != 0 ] && echo "$ts" | grep -q "103 passed" && ! echo "$ts" | grep -Eq "[0-9]+ (failed|error)"; then
  mkdir -p $DST; cp $SRC/patch.diff $SRC/demo.py $DST/
  python3 - "$SRC/meta.json" "$DST/meta.json" "$ID" "$K" "$ts" "$d0" "$d1" <<'PY'
import json,sys
src,dst,ID,K,ts,d0,d1=sys.argv[1:]
m=json.load(open(src))
m["breaks_property"]=ID
m["origin"]="independent sub-agent given only the property text and a scratch worktree"
m["confirmed"]={"worktree":"scratch git worktree of /repo HEAD under /tmp (removed afterwards)",
  "demo_on_clean_tree":f"PYTHONPATH=<tree>/src /venv/bin/python demo.py -> rc {d0}",
  "tests_with_patch":f"/venv/bin/python -m pytest -q -p no:cacheprovider tests -> {ts}",
  "demo_with_patch":f"rc {d1}"}
json.dump(m,open(dst,"w"),indent=1)
PY
  echo "kept $DST"
else
  echo "NOT CONFIRMED"; tail -n 5 /tmp/demo-$ID-$K.clean.out; tail -n 5 /tmp/demo-$ID-$K.patched.out
fi
