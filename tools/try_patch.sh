#!/bin/bash
# tools/try_patch.sh <patch.diff> <tier> <ID> [<ID>...]  : apply a seeded change to /repo, run the checks, undo.
# Evidence files are saved/restored so a mutant run never overwrites committed evidence.
P="$1"; TIER="$2"; shift 2
cd /verif
if ! git -C /repo diff --quiet; then echo "/repo not clean"; exit 3; fi
git -C /repo apply "$P" || { echo "patch does not apply"; exit 3; }
trap 'git -C /repo checkout -- . ; find /repo/src -name __pycache__ -prune -exec rm -rf {} + 2>/dev/null' EXIT
for ID in "$@"; do
  cp evidence/$ID.json /tmp/ev-$ID.bak 2>/dev/null
  out=$(./check $ID $TIER 2>&1); rc=$?
  echo "== $ID rc=$rc $(echo "$out" | grep -c '^VIOLATION') violation lines"
  echo "$out" | grep -A2 '^VIOLATION' | head -${SHOW:-9}
  [ $rc -ge 2 ] && echo "$out" | tail -15
  cp /tmp/ev-$ID.bak evidence/$ID.json 2>/dev/null
done
